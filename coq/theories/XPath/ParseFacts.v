(* Facts about the parser model (Parse.v): the audit, termination within the stated fuel,
   the guarded subscripts/asserts are unreachable, error positions lie inside the expression,
   the cache is transparent. *)
From Coq Require Import List NArith Arith Bool Lia.
From Delb.Base Require Import PyStr PyStrFacts.
From Delb.XPath Require Import XBase Tok TokFacts Ast Parse.
From Delb.XPath Require Import TTree.
From Delb.Gen Require Import GenXPath GenXPathFns.
Import ListNotations.

(* ---- the audit: the source has exactly the partial operations the model accounts for ---- *)
Lemma audit_ok : audit = model_audit.
Proof. vm_compute. reflexivity. Qed.

(* the generated tables only hold values the AST can represent *)
Lemma node_type_values_known :
  forallb (fun kv => match kind_of_class_name (snd kv) with Some _ => true | None => false end)
          node_type_test_mapping = true.
Proof. vm_compute. reflexivity. Qed.
Lemma operator_values_known :
  forallb (fun kv => match binop_of_function_name (snd kv) with Some _ => true | None => false end)
          operators = true.
Proof. vm_compute. reflexivity. Qed.
(* every operator the expression parser searches for is a key of OPERATORS, and "=" is *)
Lemma operator_order_in_operators :
  forallb (fun o => match operators_lookup (snd o) with Some _ => true | None => false end) operator_order = true
  /\ operators_lookup s_equals = Some OpEq.
Proof. vm_compute. split; reflexivity. Qed.
Lemma openers_have_complements :
  assoc_kind OPEN_BRACKET complementing = Some CLOSE_BRACKET /\ assoc_kind OPEN_PARENS complementing = Some CLOSE_PARENS.
Proof. vm_compute. split; reflexivity. Qed.

(* ---- a result satisfies: E on rejections, C on crash sites, never out of fuel ---- *)
Definition rsat {A} (E : xpe -> Prop) (C : site -> Prop) (r : pres A) : Prop :=
  match r with POk _ => True | PRej e => E e | PCrash c => C c | PFuel => False end.

Lemma rsat_bind {A B} E C (m : pres A) (f : A -> pres B) :
  rsat E C m -> (forall a, m = POk a -> rsat E C (f a)) -> rsat E C (pbind m f).
Proof. destruct m; cbn; auto. Qed.

Lemma rsat_pmap {A B} E C (f : A -> pres B) l :
  (forall x, In x l -> rsat E C (f x)) -> rsat E C (pmap f l).
Proof.
  induction l as [|x l IH]; intros H; cbn [pmap]; [exact I|].
  apply rsat_bind; [apply H; left; reflexivity|]. intros y _.
  apply rsat_bind; [apply IH; intros z Hz; apply H; right; exact Hz|]. intros ys _. exact I.
Qed.

Definition pos_le (n : nat) (e : xpe) : Prop := match x_pos e with Some p => p <= n | None => True end.
(* no crash site is reachable: every PCrash of the model is excluded by proof *)
Definition unguarded (c : site) : Prop := False.
Definition good {A} (n : nat) (r : pres A) : Prop := rsat (pos_le n) unguarded r.

Lemma good_at_position {A} n p (m : pres A) : p <= n -> good n m -> good n (at_position p m).
Proof. intros Hp. destruct m; cbn; auto. Qed.


Lemma tkind_eqb_eq a b : tkind_eqb a b = true -> a = b.
Proof. destruct a, b; cbn; intros H; try reflexivity; discriminate. Qed.

(* ---- sizes and "all tokens satisfy P" on token trees ---- *)
Lemma tsize_TG l : tsize (TG l) = lsize l.
Proof. induction l as [|x l IH]; cbn in *; [reflexivity|]. rewrite IH. reflexivity. Qed.

Fixpoint tall (P : token -> Prop) (t : ttree) : Prop :=
  match t with
  | TT x => P x
  | TG l => (fix la (l : list ttree) : Prop := match l with [] => True | y :: r => tall P y /\ la r end) l
  end.
Fixpoint lall (P : token -> Prop) (l : list ttree) : Prop :=
  match l with [] => True | y :: r => tall P y /\ lall P r end.
Lemma tall_TG P l : tall P (TG l) <-> lall P l.
Proof. induction l as [|x l IH]; cbn in *; [tauto|]. rewrite IH. tauto. Qed.

Lemma lsize_app a b : lsize (a ++ b) = lsize a + lsize b.
Proof. induction a as [|x a IH]; cbn; [reflexivity|]. rewrite IH. lia. Qed.
Lemma lall_app P a b : lall P (a ++ b) <-> lall P a /\ lall P b.
Proof. induction a as [|x a IH]; cbn; [tauto|]. rewrite IH. tauto. Qed.
Lemma lall_In P l x : lall P l -> In x l -> tall P x.
Proof. induction l as [|y l IH]; cbn; [tauto|]. intros [H1 H2] [->|H]; auto. Qed.
Lemma lall_of_In P l : (forall x, In x l -> tall P x) -> lall P l.
Proof. induction l as [|y l IH]; cbn; [tauto|]. intros H. split; [apply H; auto|apply IH; intros; apply H; auto]. Qed.
Lemma lall_split P l k : lall P l -> lall P (firstn k l) /\ lall P (skipn k l).
Proof. intros H. rewrite <- (firstn_skipn k l) in H. apply lall_app in H. exact H. Qed.
Lemma lsize_split l k : lsize l = lsize (firstn k l) + lsize (skipn k l).
Proof. rewrite <- lsize_app, firstn_skipn. reflexivity. Qed.
Lemma lsize_skipn_le l k : lsize (skipn k l) <= lsize l.
Proof. rewrite (lsize_split l k). lia. Qed.
Lemma tsize_In l x : In x l -> tsize x <= lsize l.
Proof. induction l as [|y l IH]; cbn; [tauto|]. intros [->|H]; [lia|]. apply IH in H. lia. Qed.

(* ---- what a successful pattern match says about the shape of the token list ---- *)
Fixpoint shape_of (pat : pattern) (tokens : list ttree) : Prop :=
  match pat with
  | [] => True
  | Some k :: ps => match tokens with TT t :: ts => tkind_eqb (t_kind t) k = true /\ shape_of ps ts | _ => False end
  | None :: ps => match tokens with TG g :: ts => shape_of ps ts | _ => False end
  end.

Lemma compare_shape pat : forall tokens, length pat <= length tokens ->
  compare_tokens_with_pattern tokens pat = true -> shape_of pat tokens.
Proof.
  induction pat as [|p ps IH]; intros tokens Hl H; [exact I|].
  destruct tokens as [|t ts]; [cbn in Hl; lia|]. cbn in Hl.
  cbn [compare_tokens_with_pattern] in H. destruct t as [x|g], p as [k|]; try discriminate.
  - apply andb_true_iff in H. destruct H as [H1 H2]. cbn. split; [exact H1|]. apply IH; [lia|exact H2].
  - cbn. apply IH; [lia|exact H].
Qed.
Lemma initial_match_shape tokens pat : initial_tokens_match tokens pat = true -> shape_of pat tokens.
Proof.
  unfold initial_tokens_match. intros H. apply andb_true_iff in H. destruct H as [H1 H2].
  apply Nat.leb_le in H1. apply compare_shape; assumption.
Qed.
Lemma all_match_shape tokens pat :
  all_tokens_match tokens pat = true -> shape_of pat tokens /\ length tokens = length pat.
Proof.
  unfold all_tokens_match. intros H. apply andb_true_iff in H. destruct H as [H1 H2].
  apply Nat.eqb_eq in H1. split; [apply compare_shape; [lia|exact H2]|exact H1].
Qed.

(* destructs `tokens` along a shape hypothesis with a concrete pattern *)
Ltac shape H :=
  cbn [shape_of S_] in H;
  repeat match type of H with
         | match ?l with _ => _ end => destruct l as [|[?t|?g] ?ts]; try contradiction
         | _ /\ _ => let K := fresh "K" in destruct H as [K H]
         end.

(* ---- partition_tokens: every part is made of elements of the argument ---- *)
Lemma partition_aux_In sep : forall tokens cur part x,
  In part (partition_aux sep tokens cur) -> In x part -> In x cur \/ In x tokens.
Proof.
  induction tokens as [|t r IH]; intros cur part x Hp Hx; cbn in Hp.
  - destruct Hp as [<-|[]]. left; exact Hx.
  - destruct (is_tok_kind sep t).
    + destruct (null cur).
      * specialize (IH [] part x Hp Hx). destruct IH as [[]|IH]. right; right; exact IH.
      * destruct Hp as [<-|Hp]; [left; exact Hx|].
        specialize (IH [] part x Hp Hx). destruct IH as [[]|IH]. right; right; exact IH.
    + specialize (IH (cur ++ [t]) part x Hp Hx). destruct IH as [IH|IH].
      * apply in_app_or in IH. destruct IH as [IH|[<-|[]]]; [left; exact IH|right; left; reflexivity].
      * right; right; exact IH.
Qed.
Lemma partition_In sep tokens part x : In part (partition_tokens sep tokens) -> In x part -> In x tokens.
Proof. intros Hp Hx. destruct (partition_aux_In sep tokens [] part x Hp Hx) as [[]|H]. exact H. Qed.

Lemma partition_aux_size sep : forall tokens cur part,
  In part (partition_aux sep tokens cur) -> lsize part <= lsize cur + lsize tokens.
Proof.
  induction tokens as [|t r IH]; intros cur part Hp; cbn in Hp.
  - destruct Hp as [<-|[]]. cbn. lia.
  - cbn [lsize]. destruct (is_tok_kind sep t).
    + destruct (null cur).
      * apply IH in Hp. cbn in Hp. lia.
      * destruct Hp as [<-|Hp]; [lia|]. apply IH in Hp. cbn in Hp. lia.
    + apply IH in Hp. rewrite lsize_app in Hp. cbn in Hp. lia.
Qed.
Lemma partition_size sep tokens part : In part (partition_tokens sep tokens) -> lsize part <= lsize tokens.
Proof. intros H. apply partition_aux_size in H. cbn in H. exact H. Qed.
Lemma partition_lall P sep tokens part : lall P tokens -> In part (partition_tokens sep tokens) -> lall P part.
Proof.
  intros H Hp. apply lall_of_In. intros x Hx. eapply lall_In; [exact H|]. eapply partition_In; eassumption.
Qed.

(* ---- every group directly follows its opening bracket token, is not empty, and so on inside ---- *)
Definition opener_kind (k : tkind) : bool := tkind_eqb k OPEN_BRACKET || tkind_eqb k OPEN_PARENS.
Definition opens (x : ttree) : bool := match x with TT t => is_opener t | TG _ => false end.
Definition hwf_gen (W : ttree -> Prop) : bool -> list ttree -> Prop :=
  fix go (po : bool) (l : list ttree) {struct l} : Prop :=
    match l with
    | [] => True
    | x :: r => (match x with TT _ => True | TG _ => po = true end) /\ W x /\ go (opens x) r
    end.
Fixpoint thw (t : ttree) : Prop :=
  match t with TT _ => True | TG l => l <> [] /\ hwf_gen thw false l end.
Definition hwf := hwf_gen thw.
Fixpoint flag (po : bool) (a : list ttree) : bool := match a with [] => po | x :: r => flag (opens x) r end.

Lemma kind_nonopener t k : tkind_eqb (t_kind t) k = true -> opener_kind k = false -> is_opener t = false.
Proof. intros H K. apply tkind_eqb_eq in H. unfold is_opener. rewrite H. exact K. Qed.

Lemma hwf_app po a b : hwf po (a ++ b) <-> hwf po a /\ hwf (flag po a) b.
Proof.
  revert po. induction a as [|x r IH]; intros po; cbn; [tauto|]. unfold hwf in *. rewrite IH. tauto.
Qed.
Lemma hwf_weaken po l : hwf false l -> hwf po l.
Proof. destruct l as [|[t|g] r]; cbn; [tauto|tauto|]. intros [H _]. discriminate. Qed.
Lemma hwf_firstn : forall l po k, hwf po l -> hwf po (firstn k l).
Proof.
  induction l as [|x r IH]; intros po [|k] H; cbn; try exact I. cbn in H. destruct H as [H1 [H2 H3]].
  repeat split; try assumption. apply IH, H3.
Qed.
Lemma hwf_skipn_after : forall l po i t, hwf po l -> nth_error l i = Some (TT t) -> is_opener t = false ->
  hwf false (skipn (S i) l).
Proof.
  induction l as [|x r IH]; intros po [|i] t H E K; cbn in E; try discriminate.
  - inversion E; subst. cbn in H. destruct H as [_ [_ H]]. cbn in H. rewrite K in H. exact H.
  - cbn in H. destruct H as [_ [_ H]]. exact (IH _ _ _ H E K).
Qed.
Lemma hwf_tail po x r : hwf po (x :: r) -> hwf (opens x) r.
Proof. cbn. tauto. Qed.
Lemma hwf_In : forall l po x, hwf po l -> In x l -> thw x.
Proof.
  induction l as [|y r IH]; intros po x H Hx; [destruct Hx|]. cbn in H. destruct Hx as [->|Hx]; [tauto|].
  eapply IH; [apply H|exact Hx].
Qed.

(* partition_tokens keeps it: a part starts at the beginning or after a separator, which is not a bracket *)
Lemma partition_hwf sep : (forall t, is_tok_kind sep (TT t) = true -> is_opener t = false) ->
  forall tokens cur, hwf false cur -> hwf (flag false cur) tokens ->
  forall part, In part (partition_aux sep tokens cur) -> hwf false part.
Proof.
  intros Hsep. induction tokens as [|t r IH]; intros cur Hc Ht part Hp; cbn [partition_aux] in Hp.
  - destruct Hp as [<-|[]]. exact Hc.
  - destruct (is_tok_kind sep t) eqn:E.
    + assert (Hr : hwf false r).
      { destruct t as [y|g]; [|discriminate]. apply hwf_tail in Ht. cbn in Ht. rewrite (Hsep y E) in Ht. exact Ht. }
      destruct (null cur).
      * exact (IH [] I Hr part Hp).
      * destruct Hp as [<-|Hp]; [exact Hc|exact (IH [] I Hr part Hp)].
    + apply (IH (cur ++ [t])); [| |exact Hp].
      * apply hwf_app. split; [exact Hc|]. cbn in Ht. cbn. tauto.
      * assert (F : forall a po, flag po (a ++ [t]) = opens t) by (induction a as [|z a IHa]; intros po; cbn; [reflexivity|apply IHa]).
        rewrite F. apply hwf_tail in Ht. exact Ht.
Qed.
Lemma sep_not_opener sep : opener_kind sep = false -> forall t, is_tok_kind sep (TT t) = true -> is_opener t = false.
Proof. intros K t H. cbn in H. eapply kind_nonopener; eassumption. Qed.

(* expand_axes keeps it: the replaced tokens and their replacements are not brackets *)
Definition exp_flag_ok (e : tkind * list (str * tkind)) : bool :=
  negb (opener_kind (fst e)) && negb (null (snd e))
  && negb (opener_kind (snd (last (snd e) ([], NAME)))).
Lemma expansions_flag_ok : forallb exp_flag_ok axis_expansions = true.
Proof. vm_compute. reflexivity. Qed.
Lemma assoc_kind_forallb_pair {A} (f : tkind * A -> bool) k : forall tbl v,
  forallb f tbl = true -> assoc_kind k tbl = Some v -> exists k', tkind_eqb k k' = true /\ f (k', v) = true.
Proof.
  induction tbl as [|[k' v'] r IH]; intros v H E; cbn in *; [discriminate|].
  apply andb_true_iff in H. destruct H as [H1 H2]. destruct (tkind_eqb k k') eqn:K.
  - inversion E; subst. exists k'. split; assumption.
  - apply IH; assumption.
Qed.
Lemma flag_map_tt p : forall l po, l <> [] ->
  flag po (map (fun sk => TT (mkTok p (fst sk) (snd sk))) l) = opener_kind (snd (last l ([], NAME))).
Proof.
  induction l as [|sk r IH]; intros po H; [congruence|]. destruct r as [|sk' r'].
  - reflexivity.
  - specialize (IH (opens (TT (mkTok p (fst sk) (snd sk)))) ltac:(discriminate)). cbn [map flag last] in *. exact IH.
Qed.
Lemma hwf_map_tt p : forall l po, hwf po (map (fun sk => TT (mkTok p (fst sk) (snd sk))) l).
Proof. induction l as [|sk r IH]; intros po; cbn; [exact I|]. repeat split. apply IH. Qed.

Lemma expand1_hwf t po : (match t with TT _ => True | TG _ => po = true end) -> thw t ->
  hwf po (expand1 t) /\ flag po (expand1 t) = opens t.
Proof.
  intros H1 H2. destruct t as [x|g]; cbn [expand1];
    [|split; [split; [exact H1|split; [exact H2|exact I]]|reflexivity]].
  destruct (assoc_kind (t_kind x) axis_expansions) as [l|] eqn:E;
    [|split; [split; [exact I|split; [exact I|exact I]]|reflexivity]].
  destruct (assoc_kind_forallb_pair exp_flag_ok _ _ _ expansions_flag_ok E) as [k' [K F]].
  unfold exp_flag_ok in F. cbn [fst snd] in F. apply andb_true_iff in F. destruct F as [F F3].
  apply andb_true_iff in F. destruct F as [F1 F2]. split; [apply hwf_map_tt|].
  rewrite flag_map_tt; [|destruct l; [discriminate|discriminate]].
  apply negb_true_iff in F3. rewrite F3. cbn. symmetry. apply negb_true_iff in F1. eapply kind_nonopener; eassumption.
Qed.
Lemma expand_hwf : forall tokens po, hwf po tokens -> hwf po (expand_axes tokens).
Proof.
  induction tokens as [|t r IH]; intros po H; [exact I|]. cbn in H. destruct H as [H1 [H2 H3]].
  unfold expand_axes. cbn [flat_map]. destruct (expand1_hwf t po H1 H2) as [E1 E2].
  apply hwf_app. split; [exact E1|]. rewrite E2. apply IH, H3.
Qed.

(* ---- parse_evaluation_expression ---- *)
Definition inb (n : nat) (t : token) : Prop := t_pos t < n.

Lemma function_ctor_good n name args : good n (function_ctor name args).
Proof.
  unfold function_ctor. destruct (assoc name xpath_functions) as [[k v]|]; [|exact I].
  destruct (_ && _ && _); exact I.
Qed.
Lemma axis_ctor_good n name : good n (axis_ctor name).
Proof. unfold axis_ctor. destruct (assoc _ axis_names); exact I. Qed.

Lemma find_token_spec kd s : forall tokens i0 i t,
  find_token kd s tokens i0 = Some (i, t) -> i0 <= i /\ nth_error tokens (i - i0) = Some (TT t).
Proof.
  induction tokens as [|x r IH]; intros i0 i t H; cbn in H; [discriminate|].
  destruct x as [y|g].
  - destruct (_ && _).
    + inversion H; subst. rewrite Nat.sub_diag. split; [lia|reflexivity].
    + apply IH in H. destruct H as [H1 H2]. split; [lia|].
      replace (i - i0) with (S (i - S i0)) by lia. exact H2.
  - apply IH in H. destruct H as [H1 H2]. split; [lia|].
    replace (i - i0) with (S (i - S i0)) by lia. exact H2.
Qed.
Lemma find_operator_spec ops tokens i t :
  find_operator ops tokens = Some (i, t) -> nth_error tokens i = Some (TT t).
Proof.
  induction ops as [|[kd s] r IH]; cbn; [discriminate|].
  destruct (find_token kd s tokens 0) as [[j u]|] eqn:E; [|exact IH].
  intros H; inversion H; subst. apply find_token_spec in E. destruct E as [_ E].
  rewrite Nat.sub_0_r in E. exact E.
Qed.
Lemma find_token_str kd s : forall tokens i0 i t, find_token kd s tokens i0 = Some (i, t) -> t_str t = s.
Proof.
  induction tokens as [|x r IH]; intros i0 i t H; cbn in H; [discriminate|].
  destruct x as [y|g]; [|eapply IH; exact H].
  destruct (tkind_eqb (t_kind y) kd && str_eqb (t_str y) s) eqn:E; [|eapply IH; exact H].
  inversion H; subst. apply andb_true_iff in E. destruct E as [_ E]. apply str_eqb_eq in E. exact E.
Qed.
Lemma find_operator_lookup : forall ops tokens i t,
  forallb (fun o => match operators_lookup (snd o) with Some _ => true | None => false end) ops = true ->
  find_operator ops tokens = Some (i, t) -> operators_lookup (t_str t) <> None.
Proof.
  induction ops as [|[kd s] r IH]; intros tokens i t Hall H; cbn in H; [discriminate|].
  cbn in Hall. apply andb_true_iff in Hall. destruct Hall as [H1 H2].
  destruct (find_token kd s tokens 0) as [[j u]|] eqn:E.
  - inversion H; subst. apply find_token_str in E. rewrite E. destruct (operators_lookup s); [discriminate|discriminate].
  - eapply IH; eassumption.
Qed.

Lemma nth_split_size : forall tokens i x, nth_error tokens i = Some x ->
  lsize tokens = lsize (firstn i tokens) + tsize x + lsize (skipn (S i) tokens).
Proof.
  induction tokens as [|y r IH]; intros [|i] x H; cbn in H; try discriminate.
  - inversion H; subst. cbn. lia.
  - apply IH in H. cbn [firstn skipn lsize] in *. lia.
Qed.

Ltac tail_nil L :=
  cbn [length] in L;
  match type of L with context [length ?r] => is_var r; destruct r; [|cbn [length] in L; lia] end.
Ltac exact_shape E L :=
  apply all_match_shape in E; destruct E as [E L]; shape E; tail_nil L.

Lemma find_token_kind kd s : forall tokens i0 i t,
  find_token kd s tokens i0 = Some (i, t) -> tkind_eqb (t_kind t) kd = true.
Proof.
  induction tokens as [|x r IH]; intros i0 i t H; cbn in H; [discriminate|].
  destruct x as [y|g]; [|eapply IH; exact H].
  destruct (tkind_eqb (t_kind y) kd && str_eqb (t_str y) s) eqn:E; [|eapply IH; exact H].
  inversion H; subst. apply andb_true_iff in E. apply E.
Qed.
Lemma operators_not_brackets : forallb (fun o => negb (opener_kind (fst o))) operator_order = true.
Proof. vm_compute. reflexivity. Qed.
Lemma find_operator_nonopener : forall ops tokens i t,
  forallb (fun o => negb (opener_kind (fst o))) ops = true ->
  find_operator ops tokens = Some (i, t) -> is_opener t = false.
Proof.
  induction ops as [|[kd s] r IH]; intros tokens i t Hall H; cbn in H; [discriminate|].
  cbn in Hall. apply andb_true_iff in Hall. destruct Hall as [H1 H2].
  destruct (find_token kd s tokens 0) as [[j u]|] eqn:E.
  - inversion H; subst. apply find_token_kind in E. apply negb_true_iff in H1. eapply kind_nonopener; eassumption.
  - eapply IH; eassumption.
Qed.
Lemma comma_not_opener : forall t, is_tok_kind COMMA (TT t) = true -> is_opener t = false.
Proof. apply sep_not_opener. reflexivity. Qed.

Lemma group_inside n tokens g : lall (inb n) tokens -> hwf false tokens -> In (TG g) tokens ->
  lall (inb n) g /\ hwf false g /\ g <> [].
Proof.
  intros H1 H2 Hin. pose proof (lall_In _ _ _ H1 Hin) as A. apply tall_TG in A.
  pose proof (hwf_In _ _ _ H2 Hin) as B. cbn in B. tauto.
Qed.

Lemma body_good n rec tokens :
  lall (inb n) tokens -> hwf false tokens ->
  (forall l, lsize l < lsize tokens -> lall (inb n) l -> hwf false l -> good n (rec l)) ->
  good n (parse_evaluation_expression_body rec tokens).
Proof.
  intros Hall Hw Hrec. unfold parse_evaluation_expression_body.
  destruct (null tokens) eqn:Nt; [exact I|].
  destruct (all_tokens_match tokens [S_ NUMBER]) eqn:E1.
  { exact_shape E1 L. cbn [nth_tok nth_error pbind]. destruct (py_int (t_str t)); [exact I|].
    cbn in Hall. unfold inb in Hall. cbn. unfold pos_le; cbn. lia. }
  destruct (all_tokens_match tokens [S_ STRING]) eqn:E2.
  { exact_shape E2 L. exact I. }
  destruct (all_tokens_match tokens [S_ STRUDEL; S_ NAME]) eqn:E3.
  { exact_shape E3 L. exact I. }
  destruct (all_tokens_match tokens [S_ STRUDEL; S_ NAME; S_ COLON; S_ NAME]) eqn:E4.
  { exact_shape E4 L. exact I. }
  destruct (all_tokens_match tokens [S_ NAME; S_ OPEN_PARENS; None; S_ CLOSE_PARENS]) eqn:E5.
  { exact_shape E5 L. cbn [nth_tok nth_group nth_error pbind].
    destruct (group_inside n _ g Hall Hw ltac:(right; right; left; reflexivity)) as [Hg [Hgw _]].
    cbn [lall tall] in Hall. destruct Hall as [Ht _].
    apply rsat_bind.
    - apply rsat_pmap. intros part Hp. apply rsat_bind; [|intros; exact I].
      apply Hrec; [|eapply partition_lall; eassumption|].
      + apply partition_size in Hp. cbn [lsize]. rewrite tsize_TG. cbn [tsize]. lia.
      + exact (partition_hwf COMMA comma_not_opener g [] I Hgw part Hp).
    - intros args _. apply good_at_position; [unfold inb in Ht; lia|apply function_ctor_good]. }
  destruct (all_tokens_match tokens [S_ NAME; S_ OPEN_PARENS; S_ CLOSE_PARENS]) eqn:E6.
  { exact_shape E6 L. cbn [nth_tok nth_error pbind]. apply function_ctor_good. }
  destruct (all_tokens_match tokens [S_ OPEN_PARENS; None; S_ CLOSE_PARENS]) eqn:E7.
  { exact_shape E7 L. cbn [nth_tok nth_group nth_error pbind].
    destruct (group_inside n _ g Hall Hw ltac:(right; left; reflexivity)) as [Hg [Hgw _]].
    apply Hrec; [|exact Hg|exact Hgw]. cbn [lsize]. rewrite tsize_TG. cbn [tsize]. lia. }
  destruct (find_operator operator_order tokens) as [[i token]|] eqn:F.
  - pose proof (find_operator_lookup _ _ _ _ (proj1 operator_order_in_operators) F) as Lk.
    pose proof (find_operator_nonopener _ _ _ _ operators_not_brackets F) as Nop.
    apply find_operator_spec in F. pose proof (nth_split_size _ _ _ F) as Sz. cbn [tsize] in Sz.
    destruct (Nat.ltb 0 i && Nat.ltb i (length tokens - 1)).
    + destruct (lall_split (inb n) tokens i Hall) as [Hl _].
      destruct (lall_split (inb n) tokens (S i) Hall) as [_ Hr].
      apply rsat_bind; [apply Hrec; [lia|exact Hl|apply hwf_firstn, Hw]|]. intros left _.
      apply rsat_bind; [apply Hrec; [lia|exact Hr|eapply hwf_skipn_after; eassumption]|]. intros right _.
      cbv zeta. destruct (operators_lookup (t_str token)); [exact I|congruence].
    + apply nth_error_In in F. pose proof (lall_In _ _ _ Hall F) as Ht. cbn in Ht. unfold inb in Ht.
      cbn. unfold pos_le; cbn. lia.
  - destruct tokens as [|[t0|g] r]; [discriminate| |].
    + cbn in Hall. unfold inb in Hall. cbn. unfold pos_le; cbn. lia.
    + cbn in Hw. destruct Hw as [Hw _]. discriminate.
Qed.

Lemma parse_expr_good n : forall fuel tokens,
  lsize tokens < fuel -> lall (inb n) tokens -> hwf false tokens -> good n (parse_evaluation_expression fuel tokens).
Proof.
  induction fuel as [|fuel IH]; intros tokens Hs Hall Hw; [inversion Hs|].
  cbn [parse_evaluation_expression]. apply body_good; [exact Hall|exact Hw|].
  intros l Hl Hal Hlw. apply IH; [lia|exact Hal|exact Hlw].
Qed.

(* ---- group_enclosed_expressions ---- *)
Definition gspec (n len : nat) (r : pres (list ttree)) : Prop :=
  match r with
  | POk c => lall (real_token n) c /\ lsize c <= len
  | PRej e => pos_le n e
  | PCrash c => unguarded c
  | PFuel => False
  end.

Fixpoint bottom (openers : list (nat * token)) : option nat :=
  match openers with
  | [] => None
  | o :: r => match r with [] => Some (fst o) | _ :: _ => bottom r end
  end.
Definition base_of (openers : list (nat * token)) (i : nat) : nat :=
  match bottom openers with None => i | Some b => b end.

Lemma Forall_split {A} (P : A -> Prop) l k : Forall P l -> Forall P (firstn k l) /\ Forall P (skipn k l).
Proof. intros H. rewrite <- (firstn_skipn k l) in H. apply Forall_app in H. exact H. Qed.

Lemma real_pos_le n t : real_token n t -> t_pos t <= n.
Proof. unfold real_token. lia. Qed.

Lemma bottom_cons o r : exists b, bottom (o :: r) = Some b.
Proof. revert o. induction r as [|x r IH]; intros o; cbn; [eauto|]. apply IH. Qed.
Lemma base_of_cons o r i j : base_of (o :: r) i = base_of (o :: r) j.
Proof. unfold base_of. destruct (bottom_cons o r) as [b ->]. reflexivity. Qed.
Lemma base_of_push x o r i : base_of (x :: o :: r) i = base_of (o :: r) i.
Proof. reflexivity. Qed.

Lemma opener_has_complement st : is_opener st = true -> assoc_kind (t_kind st) complementing <> None.
Proof.
  unfold is_opener. intros H. apply orb_true_iff in H. destruct H as [H|H]; apply tkind_eqb_eq in H; rewrite H.
  - rewrite (proj1 openers_have_complements). discriminate.
  - rewrite (proj2 openers_have_complements). discriminate.
Qed.

Lemma group_loop_spec n rec tokens :
  Forall (real_token n) tokens ->
  (forall l, length l < length tokens -> Forall (real_token n) l -> gspec n (length l) (rec l)) ->
  forall rest i result openers,
    i + length rest = length tokens ->
    Forall (real_token n) rest ->
    Forall (fun o => fst o < i /\ real_token n (snd o) /\ is_opener (snd o) = true) openers ->
    lall (real_token n) result -> lsize result <= base_of openers i ->
    gspec n (length tokens) (group_loop rec tokens rest i result openers).
Proof.
  intros Htokens Hrec. induction rest as [|tok rest IH]; intros i result openers Hi Hrest Hop Hres Hsz.
  - cbn [group_loop]. destruct openers as [|[sp st] ops].
    + cbn. unfold base_of in Hsz; cbn in Hsz. cbn in Hi. split; [exact Hres|lia].
    + inversion Hop as [|x y [_ [Hreal _]] _]; subst. cbn. unfold pos_le; cbn. apply real_pos_le, Hreal.
  - inversion Hrest as [|x y Htok Hrest']; subst. cbn [length] in Hi.
    cbn [group_loop]. destruct (is_opener tok) eqn:Eop.
    { apply IH; [lia|exact Hrest'| | exact Hres|].
      - constructor; [cbn; split; [lia|split; [exact Htok|exact Eop]]|].
        eapply Forall_impl; [|exact Hop]. intros o [Ha Hb]. split; [lia|exact Hb].
      - destruct openers as [|o r]; [exact Hsz|].
        rewrite base_of_push, (base_of_cons o r (S i) i). exact Hsz. }
    destruct (is_closer tok).
    { destruct openers as [|[sp st] ops]; [cbn; unfold pos_le; cbn; apply real_pos_le, Htok|]. cbn [null].
      inversion Hop as [|x y [Hsp [Hst Hso]] Hops]; subst. cbn [fst snd] in *.
      pose proof (opener_has_complement st Hso) as Hcomp.
      destruct (assoc_kind (t_kind st) complementing); [|congruence].
      destruct (negb (tkind_eqb (t_kind tok) t)).
      { cbn. unfold pos_le; cbn. apply real_pos_le, Htok. }
      destruct ops as [|o r].
      - unfold base_of in Hsz; cbn in Hsz.
        assert (Hsl : length (py_slice tokens (S sp) i) <= i - S sp) by (unfold py_slice; apply firstn_le_length).
        assert (Hsl2 : length (py_slice tokens (S sp) i) < length tokens) by lia.
        assert (Hslr : Forall (real_token n) (py_slice tokens (S sp) i)).
        { unfold py_slice. apply Forall_split. apply Forall_split. exact Htokens. }
        specialize (Hrec _ Hsl2 Hslr).
        destruct (rec (py_slice tokens (S sp) i)) as [c|e|x|]; cbn [pbind]; cbn in Hrec; try exact Hrec; try contradiction.
        destruct Hrec as [Hc1 Hc2].
        apply IH; [lia|exact Hrest'|constructor| |].
        + apply lall_app. split; [exact Hres|]. destruct (null c).
          * cbn [lall tall]. tauto.
          * change (tall (real_token n) (TT st) /\ (tall (real_token n) (TG c) /\ (tall (real_token n) (TT tok) /\ True))).
            split; [exact Hst|]. split; [apply tall_TG; exact Hc1|]. split; [exact Htok|exact I].
        + unfold base_of; cbn [bottom]. rewrite lsize_app.
          destruct (null c); cbn [lsize]; [cbn [tsize]; lia|]. rewrite tsize_TG. cbn [tsize]. lia.
      - apply IH; [lia|exact Hrest'| |exact Hres|].
        + eapply Forall_impl; [|exact Hops]. intros o' [Ha Hb]. split; [lia|exact Hb].
        + rewrite (base_of_cons o r (S i) i). rewrite base_of_push in Hsz. exact Hsz. }
    destruct openers as [|o r].
    + apply IH; [lia|exact Hrest'|constructor| |].
      * apply lall_app. split; [exact Hres|cbn; split; [exact Htok|exact I]].
      * unfold base_of in *; cbn in *. rewrite lsize_app. cbn. lia.
    + apply IH; [lia|exact Hrest'| |exact Hres|].
      * eapply Forall_impl; [|exact Hop]. intros o' [Ha Hb]. split; [lia|exact Hb].
      * rewrite (base_of_cons o r (S i) i). exact Hsz.
Qed.

Lemma group_spec n : forall fuel tokens, length tokens < fuel -> Forall (real_token n) tokens ->
  gspec n (length tokens) (group_enclosed_expressions fuel tokens).
Proof.
  induction fuel as [|fuel IH]; intros tokens Hl Ht; [inversion Hl|].
  cbn [group_enclosed_expressions]. apply group_loop_spec.
  - exact Ht.
  - intros l Hl' Hr. apply IH; [lia|exact Hr].
  - reflexivity.
  - exact Ht.
  - constructor.
  - exact I.
  - cbn. lia.
Qed.

(* a successful grouping is well formed: groups directly follow their opening bracket, are not empty,
   and are directly followed by a closing bracket token *)
Definition isTT (x : ttree) : Prop := match x with TT _ => True | TG _ => False end.
Definition next_is_closer (r : list ttree) : Prop := match r with TT c :: _ => is_closer c = true | _ => False end.
Fixpoint seq2 (L : list ttree) : Prop :=
  match L with [] => True | x :: r => (isTT x \/ next_is_closer r) /\ seq2 r end.
Definition gwf (c : list ttree) : Prop := hwf false c /\ flag false c = false /\ seq2 c.

Lemma flag_app : forall a po b, flag po (a ++ b) = flag (flag po a) b.
Proof. induction a as [|x r IH]; intros po b; cbn; [reflexivity|apply IH]. Qed.
Lemma seq2_app a b : seq2 a -> seq2 b -> seq2 (a ++ b).
Proof.
  induction a as [|x r IH]; intros Ha Hb; [exact Hb|]. cbn [app seq2] in *. destruct Ha as [Hx Hr].
  split; [|apply IH; assumption]. destruct Hx as [Hx|Hx]; [left; exact Hx|right].
  destruct r as [|[c|g] r']; try contradiction. exact Hx.
Qed.
Lemma gwf_app result X : gwf result -> hwf false X -> flag false X = false -> seq2 X -> X <> [] -> gwf (result ++ X).
Proof.
  intros [H1 [H2 H3]] X1 X2 X3 Xne. repeat split.
  - apply hwf_app. rewrite H2. split; assumption.
  - rewrite flag_app, H2. exact X2.
  - apply seq2_app; assumption.
Qed.

Lemma group_loop_gwf rec tokens : (forall l c, rec l = POk c -> gwf c) ->
  forall rest i result openers c,
    gwf result -> Forall (fun o => is_opener (snd o) = true) openers ->
    group_loop rec tokens rest i result openers = POk c -> gwf c.
Proof.
  intros Hrec. induction rest as [|tok rest IH]; intros i result openers c Hres Hop H; cbn [group_loop] in H.
  - destruct openers as [|[sp st] ops]; [inversion H; subst; exact Hres|discriminate].
  - destruct (is_opener tok) eqn:Eop.
    { eapply IH; [exact Hres| |exact H]. constructor; [exact Eop|exact Hop]. }
    destruct (is_closer tok) eqn:Ecl.
    { destruct openers as [|[sp st] ops]; [discriminate|]. cbn [null] in H.
      inversion Hop as [|x y Hst Hops]; subst. cbn [snd] in Hst.
      destruct (assoc_kind (t_kind st) complementing); [|discriminate].
      destruct (negb (tkind_eqb (t_kind tok) t)); [discriminate|].
      destruct ops as [|o r].
      - destruct (rec (py_slice tokens (S sp) i)) as [contents|e|x|] eqn:R; cbn [pbind] in H; try discriminate.
        apply Hrec in R. destruct R as [R1 [R2 R3]].
        eapply IH; [|constructor|exact H].
        destruct (null contents) eqn:Nc.
        + apply gwf_app; [exact Hres| | | |discriminate].
          * cbn. tauto.
          * cbn. exact Eop.
          * cbn. tauto.
        + apply gwf_app; [exact Hres| | | |discriminate].
          * split; [exact I|]. split; [exact I|]. split; [cbn; exact Hst|]. split; [|split; [exact I|split; [exact I|exact I]]].
            split; [destruct contents; [discriminate|discriminate]|exact R1].
          * cbn. exact Eop.
          * cbn. split; [left; exact I|]. split; [right; exact Ecl|]. split; [left; exact I|exact I].
      - eapply IH; [exact Hres|exact Hops|exact H]. }
    destruct openers as [|o r].
    + eapply IH; [|constructor|exact H]. apply gwf_app; [exact Hres| | | |discriminate].
      * cbn. tauto.
      * cbn. exact Eop.
      * cbn. tauto.
    + eapply IH; [exact Hres|exact Hop|exact H].
Qed.

Lemma group_gwf : forall fuel tokens c, group_enclosed_expressions fuel tokens = POk c -> gwf c.
Proof.
  induction fuel as [|fuel IH]; intros tokens c H; [discriminate|]. cbn [group_enclosed_expressions] in H.
  eapply group_loop_gwf; [exact (IH)| |constructor|exact H]. repeat split.
Qed.

(* ---- induction over token trees ---- *)
Section TTreeInd.
  Variable P : ttree -> Prop.
  Hypothesis HT : forall t, P (TT t).
  Hypothesis HG : forall l, Forall P l -> P (TG l).
  Fixpoint ttree_ind' (t : ttree) : P t :=
    match t with
    | TT x => HT x
    | TG l => HG l ((fix go (l : list ttree) : Forall P l :=
                       match l with [] => Forall_nil P | x :: r => Forall_cons x (ttree_ind' x) (go r) end) l)
    end.
End TTreeInd.

Lemma tall_impl (P Q : token -> Prop) : (forall t, P t -> Q t) -> forall x, tall P x -> tall Q x.
Proof.
  intros HPQ. induction x as [t|l IH] using ttree_ind'; [apply HPQ|].
  intros H. apply tall_TG. apply tall_TG in H. induction IH as [|y r Hy _ IHr]; [exact I|].
  cbn in *. destruct H as [H1 H2]. split; [apply Hy, H1|apply IHr, H2].
Qed.
Lemma lall_impl (P Q : token -> Prop) l : (forall t, P t -> Q t) -> lall P l -> lall Q l.
Proof.
  intros HPQ H. apply lall_of_In. intros x Hx. eapply tall_impl; [exact HPQ|]. eapply lall_In; eassumption.
Qed.
Lemma real_inb n t : real_token n t -> inb n t.
Proof. unfold real_token, inb. lia. Qed.

(* ---- parse_location_step ---- *)
Definition gsz (m : nat) (t : ttree) : Prop := match t with TG g => lsize g <= m | TT _ => True end.
Definition sinv (n m : nat) (l : list ttree) : Prop := lall (inb n) l /\ Forall (gsz m) l.

Lemma sinv_sub n m l l' : (forall x, In x l' -> In x l) -> sinv n m l -> sinv n m l'.
Proof.
  intros Hsub [H1 H2]. split.
  - apply lall_of_In. intros x Hx. eapply lall_In; [exact H1|apply Hsub, Hx].
  - apply Forall_forall. intros x Hx. rewrite Forall_forall in H2. apply H2, Hsub, Hx.
Qed.
Lemma In_skipn {A} (l : list A) k x : In x (skipn k l) -> In x l.
Proof. intros H. rewrite <- (firstn_skipn k l). apply in_or_app. right; exact H. Qed.
Lemma sinv_skipn n m l k : sinv n m l -> sinv n m (skipn k l).
Proof. apply sinv_sub. intros x. apply In_skipn. Qed.

Definition pe_ok (n m : nat) (pe : list ttree -> pres expr) : Prop :=
  forall g, lsize g <= m -> lall (inb n) g -> hwf false g -> good n (pe g).

Lemma last_some_In {A} (l : list A) x : last (map Some l) None = Some x -> In x l.
Proof.
  induction l as [|y r IH]; cbn; [discriminate|]. destruct r as [|z r'].
  - cbn. intros H; inversion H. left; reflexivity.
  - intros H. right. apply IH. exact H.
Qed.

Lemma number_predicate_good n p : good n (number_predicate p).
Proof.
  unfold number_predicate. destruct p as [[s|k]| | | |]; [exact I| |exact I|exact I|exact I|exact I].
  rewrite (proj2 operator_order_in_operators).
  apply rsat_bind; [apply function_ctor_good|]. intros; exact I.
Qed.

Lemma parse_predicates_eq pe tokens :
  parse_predicates pe tokens =
  match tokens with
  | [] => POk []
  | _ :: _ =>
      if initial_tokens_match tokens [S_ OPEN_BRACKET; None; S_ CLOSE_BRACKET] then
        match tokens with
        | _ :: TG g :: _ :: rest =>
            predicate <- pe g ;; predicate <- number_predicate predicate ;;
            more <- parse_predicates pe rest ;; POk (predicate :: more)
        | _ :: TT _ :: _ :: _ => PCrash S_guarded_assert
        | _ => PCrash S_guarded_index
        end
      else
        match last (map Some tokens) None with
        | None => PCrash S_step_pred_last_index
        | Some (TG _) => PCrash S_step_pred_last_not_token
        | Some (TT t) => PRej (mkXpe (Some (t_pos t)) msg_parse_location_step_6 false)
        end
  end.
Proof. destruct tokens; reflexivity. Qed.

(* the last token of a step, when it is an axis separator, is a token of the expression itself
   (not one written by expand_axes): this is what bounds the position of "Missing node test." *)
Definition okl (n : nat) (x : ttree) : Prop :=
  match x with TT t => tkind_eqb (t_kind t) AXIS_SEPARATOR = true -> real_token n t | TG _ => True end.
Definition endok (n : nat) (part : list ttree) : Prop :=
  match last (map Some part) None with Some x => okl n x | None => True end.

(* ---- parse_location_path: the parts of the expanded token list end well ---- *)
Definition next_not_slash (r : list ttree) : Prop :=
  match r with y :: _ => is_tok_kind SLASH y = false | [] => False end.
Fixpoint seq_ok (n : nat) (L : list ttree) : Prop :=
  match L with [] => True | x :: r => (okl n x \/ next_not_slash r) /\ seq_ok n r end.

Lemma endok_snoc n cur t : endok n (cur ++ [t]) <-> okl n t.
Proof. unfold endok. rewrite map_app. cbn [map]. rewrite last_last. tauto. Qed.

Lemma partition_endok n : forall L cur, seq_ok n L -> (endok n cur \/ next_not_slash L) ->
  forall part, In part (partition_aux SLASH L cur) -> endok n part.
Proof.
  induction L as [|t r IH]; intros cur Hseq Hcur part Hp; cbn [partition_aux] in Hp.
  - destruct Hp as [<-|[]]. destruct Hcur as [H|[]]. exact H.
  - cbn [seq_ok] in Hseq. destruct Hseq as [Ht Hr]. destruct (is_tok_kind SLASH t) eqn:E.
    + assert (Hc : endok n cur) by (destruct Hcur as [H|H]; [exact H|cbn in H; congruence]).
      destruct (null cur).
      * exact (IH [] Hr (or_introl (I : endok n [])) part Hp).
      * destruct Hp as [<-|Hp]; [exact Hc|]. exact (IH [] Hr (or_introl (I : endok n [])) part Hp).
    + eapply IH; [exact Hr| |exact Hp]. destruct Ht as [Ht|Ht]; [left; apply endok_snoc; exact Ht|right; exact Ht].
Qed.

Lemma seq_ok_app n a b : seq_ok n a -> seq_ok n b -> seq_ok n (a ++ b).
Proof.
  induction a as [|x r IH]; intros Ha Hb; [exact Hb|]. cbn [app seq_ok] in *. destruct Ha as [Hx Hr].
  split; [|apply IH; assumption]. destruct Hx as [Hx|Hx]; [left; exact Hx|right].
  destruct r; [contradiction|exact Hx].
Qed.

Fixpoint exp_ok (l : list (str * tkind)) : bool :=
  match l with
  | [] => true
  | sk :: r => (negb (tkind_eqb (snd sk) AXIS_SEPARATOR)
                || match r with sk' :: _ => negb (tkind_eqb (snd sk') SLASH) | [] => false end) && exp_ok r
  end.
(* in every replacement list of expand_axes, `::` is followed by something other than `/` *)
Lemma expansions_ok : forallb (fun e => exp_ok (snd e)) axis_expansions = true.
Proof. vm_compute. reflexivity. Qed.

Lemma exp_ok_seq n p l : exp_ok l = true -> seq_ok n (map (fun sk => TT (mkTok p (fst sk) (snd sk))) l).
Proof.
  induction l as [|sk r IH]; intros H; [exact I|]. cbn [exp_ok] in H. apply andb_true_iff in H. destruct H as [H1 H2].
  cbn [map seq_ok]. split; [|apply IH; exact H2].
  apply orb_true_iff in H1. destruct H1 as [H1|H1].
  - left. cbn. intros K. rewrite K in H1. discriminate.
  - right. destruct r as [|sk' r']; [discriminate|]. cbn. apply negb_true_iff in H1. exact H1.
Qed.

Lemma assoc_kind_forallb {A} (f : A -> bool) k : forall tbl v,
  forallb (fun e => f (snd e)) tbl = true -> assoc_kind k tbl = Some v -> f v = true.
Proof.
  induction tbl as [|[k' v'] r IH]; intros v H E; cbn in *; [discriminate|].
  apply andb_true_iff in H. destruct H as [H1 H2]. destruct (tkind_eqb k k'); [inversion E; subst; exact H1|].
  apply IH; assumption.
Qed.

Lemma expand_seq_ok n tokens : lall (real_token n) tokens -> seq_ok n (expand_axes tokens).
Proof.
  induction tokens as [|t r IH]; intros H; [exact I|]. cbn [lall] in H. destruct H as [Ht Hr].
  unfold expand_axes. cbn [flat_map]. apply seq_ok_app; [|apply IH; exact Hr].
  destruct t as [x|g]; cbn [expand1].
  - destruct (assoc_kind (t_kind x) axis_expansions) as [l|] eqn:E.
    + apply exp_ok_seq. eapply (assoc_kind_forallb exp_ok); [exact expansions_ok|exact E].
    + cbn. split; [left; intros _; exact Ht|exact I].
  - cbn. split; [left; exact I|exact I].
Qed.

Lemma expand1_In x t : In x (expand1 t) ->
  x = t \/ exists y s k, t = TT y /\ x = TT (mkTok (t_pos y) s k).
Proof.
  destruct t as [y|g]; cbn [expand1]; [|intros [<-|[]]; left; reflexivity].
  destruct (assoc_kind (t_kind y) axis_expansions) as [l|]; [|intros [<-|[]]; left; reflexivity].
  intros H. apply in_map_iff in H. destruct H as [[s k] [<- _]]. right. exists y, s, k. auto.
Qed.

Lemma expand_sinv n m tokens : sinv n m tokens -> sinv n m (expand_axes tokens).
Proof.
  intros [H1 H2]. assert (K : forall x, In x (expand_axes tokens) -> tall (inb n) x /\ gsz m x).
  { intros x Hx. apply in_flat_map in Hx. destruct Hx as [t [Ht Hx]].
    pose proof (lall_In _ _ _ H1 Ht) as T1. rewrite Forall_forall in H2. pose proof (H2 _ Ht) as T2.
    apply expand1_In in Hx. destruct Hx as [->|[y [s [k [-> ->]]]]]; [auto|]. cbn in *. auto. }
  split; [apply lall_of_In; intros x Hx; apply K, Hx|apply Forall_forall; intros x Hx; apply K, Hx].
Qed.

Lemma expansions_nonempty : forallb (fun e => negb (null (snd e))) axis_expansions = true.
Proof. vm_compute. reflexivity. Qed.
Lemma expand1_nonempty t : expand1 t <> [].
Proof.
  destruct t as [x|g]; cbn [expand1]; [|discriminate].
  destruct (assoc_kind (t_kind x) axis_expansions) as [l|] eqn:E; [|discriminate].
  pose proof (assoc_kind_forallb (fun l => negb (null l)) _ _ _ expansions_nonempty E) as H.
  destruct l; [discriminate|discriminate].
Qed.


(* ---- what the step parser relies on: positions, sizes, brackets around groups ---- *)
Lemma seq2_skipn : forall l k, seq2 l -> seq2 (skipn k l).
Proof. induction l as [|x r IH]; intros [|k] H; cbn; try exact H. apply IH. cbn in H. tauto. Qed.
Lemma seq2_last : forall l g, seq2 l -> last (map Some l) None = Some (TG g) -> False.
Proof.
  induction l as [|x r IH]; intros g H E; cbn in E; [discriminate|]. cbn in H. destruct H as [H1 H2].
  destruct r as [|y r'].
  - cbn in E. inversion E; subst. destruct H1 as [H1|H1]; contradiction.
  - exact (IH g H2 E).
Qed.
Lemma seq2_suffix a b : seq2 (a ++ b) -> seq2 b.
Proof. induction a as [|x r IH]; cbn; [tauto|]. intros [_ H]. exact (IH H). Qed.
Lemma seq2_prefix a t r : seq2 (a ++ t :: r) -> ~ next_is_closer (t :: r) -> seq2 a.
Proof.
  induction a as [|x a' IH]; intros H N; [exact I|]. cbn [app seq2] in *. destruct H as [H1 H2].
  split; [|exact (IH H2 N)]. destruct H1 as [H1|H1]; [left; exact H1|].
  destruct a' as [|y a'']; cbn [app] in H1; [contradiction|right; exact H1].
Qed.

Lemma partition_seq2 sep : (forall t, is_tok_kind sep (TT t) = true -> is_closer t = false) ->
  forall tokens cur, seq2 (cur ++ tokens) -> forall part, In part (partition_aux sep tokens cur) -> seq2 part.
Proof.
  intros Hsep. induction tokens as [|t r IH]; intros cur H part Hp; cbn [partition_aux] in Hp.
  - destruct Hp as [<-|[]]. rewrite app_nil_r in H. exact H.
  - destruct (is_tok_kind sep t) eqn:E.
    + assert (Hc : seq2 cur).
      { eapply seq2_prefix; [exact H|]. destruct t as [y|g]; [|discriminate]. cbn. rewrite (Hsep y E). discriminate. }
      assert (Hr : seq2 ([] ++ r)) by (apply seq2_suffix in H; cbn in H; apply H).
      destruct (null cur).
      * exact (IH [] Hr part Hp).
      * destruct Hp as [<-|Hp]; [exact Hc|exact (IH [] Hr part Hp)].
    + apply (IH (cur ++ [t])); [|exact Hp]. rewrite <- app_assoc. exact H.
Qed.
Lemma sep_not_closer sep : (tkind_eqb sep CLOSE_BRACKET || tkind_eqb sep CLOSE_PARENS) = false ->
  forall t, is_tok_kind sep (TT t) = true -> is_closer t = false.
Proof. intros K t H. cbn in H. apply tkind_eqb_eq in H. unfold is_closer. rewrite H. exact K. Qed.

Lemma closers_not_expanded c : is_closer c = true -> expand1 (TT c) = [TT c].
Proof.
  unfold is_closer. intros H. cbn [expand1]. apply orb_true_iff in H.
  destruct H as [H|H]; apply tkind_eqb_eq in H; rewrite H; reflexivity.
Qed.
Lemma expand1_tt_all y : Forall isTT (expand1 (TT y)).
Proof.
  cbn [expand1]. destruct (assoc_kind (t_kind y) axis_expansions) as [l|]; [|repeat constructor].
  induction l; cbn; constructor; [exact I|assumption].
Qed.
Lemma seq2_tt_app a b : Forall isTT a -> seq2 b -> seq2 (a ++ b).
Proof. induction 1 as [|x a Hx _ IH]; intros Hb; [exact Hb|]. cbn. split; [left; exact Hx|exact (IH Hb)]. Qed.
Lemma expand_seq2 : forall tokens, seq2 tokens -> seq2 (expand_axes tokens).
Proof.
  induction tokens as [|t r IH]; intros H; [exact I|]. cbn [seq2] in H. destruct H as [H1 H2].
  unfold expand_axes. cbn [flat_map]. fold (expand_axes r). destruct t as [y|g].
  - apply seq2_tt_app; [apply expand1_tt_all|exact (IH H2)].
  - destruct H1 as [[]|H1]. destruct r as [|[c|g'] r']; try contradiction. cbn in H1.
    cbn [expand1 app]. split; [|exact (IH H2)]. right.
    unfold expand_axes. cbn [flat_map]. rewrite (closers_not_expanded c H1). cbn. exact H1.
Qed.

Definition W (n m : nat) (l : list ttree) : Prop := sinv n m l /\ hwf false l /\ seq2 l.

Lemma W_skipn_after n m l k t : W n m l -> nth_error l k = Some (TT t) -> is_opener t = false -> W n m (skipn (S k) l).
Proof.
  intros [H1 [H2 H3]] E K. split; [apply sinv_skipn, H1|]. split; [eapply hwf_skipn_after; eassumption|apply seq2_skipn, H3].
Qed.
Lemma W_head_not_group n m g r : W n m (TG g :: r) -> False.
Proof. intros [_ [H _]]. cbn in H. destruct H as [H _]. discriminate. Qed.

Lemma parse_predicates_good n m pe : pe_ok n m pe ->
  forall k tokens, length tokens <= k -> W n m tokens -> good n (parse_predicates pe tokens).
Proof.
  intros Hpe. induction k as [|k IH]; intros tokens Hk Hinv.
  - destruct tokens; [exact I|cbn in Hk; lia].
  - rewrite parse_predicates_eq. rename tokens into tk.
    destruct (initial_tokens_match tk [S_ OPEN_BRACKET; None; S_ CLOSE_BRACKET]) eqn:E.
    + apply initial_match_shape in E. shape E.
      assert (Wr : W n m ts).
      { apply (W_skipn_after n m _ 2 t0 Hinv eq_refl). eapply kind_nonopener; [exact K0|reflexivity]. }
      destruct Hinv as [[H1 H2] [H3 _]].
      destruct (group_inside n _ g H1 H3 ltac:(right; left; reflexivity)) as [Hg [Hgw _]].
      inversion H2 as [|? ? _ H2']; subst. inversion H2' as [|? ? Hgs _]; subst. cbn in Hgs.
      apply rsat_bind; [apply Hpe; assumption|]. intros p _.
      apply rsat_bind; [apply number_predicate_good|]. intros p' _.
      apply rsat_bind; [apply IH; [cbn in Hk; lia|exact Wr]|]. intros; exact I.
    + destruct tk as [|x0 r0]; [exact I|].
      destruct (last (map Some (x0 :: r0)) None) as [[t|g]|] eqn:L.
      * apply last_some_In in L. destruct Hinv as [[H1 _] _]. pose proof (lall_In _ _ _ H1 L) as Ht. cbn in Ht.
        unfold pos_le, inb in *; cbn. lia.
      * exfalso. destruct Hinv as [_ [_ H3]]. exact (seq2_last _ _ H3 L).
      * exfalso. revert L. clear. revert x0. induction r0 as [|y r IH]; intros x0; [discriminate|apply IH].
Qed.

Lemma step_axis_spec n m tokens0 : W n m tokens0 ->
  match step_axis tokens0 with
  | POk (ax, t1) => W n m t1 /\
                    (t1 = tokens0 \/
                     exists a b, tokens0 = TT a :: TT b :: t1 /\ tkind_eqb (t_kind b) AXIS_SEPARATOR = true)
  | r => good n r
  end.
Proof.
  intros Hw. unfold step_axis. destruct (initial_tokens_match tokens0 _) eqn:E.
  - apply initial_match_shape in E. shape E. cbn [nth_tok nth_error pbind].
    assert (Wr : W n m ts).
    { apply (W_skipn_after n m _ 1 t0 Hw eq_refl). eapply kind_nonopener; [exact K0|reflexivity]. }
    destruct Hw as [[H1 _] _]. cbn [lall tall] in H1. destruct H1 as [Ht _]. unfold inb in Ht.
    destruct (axis_ctor (t_str t)) as [ax|e|c|] eqn:A; cbn.
    + split; [exact Wr|]. right. exists t, t0. split; [reflexivity|exact K0].
    + unfold pos_le; cbn. lia.
    + pose proof (axis_ctor_good n (t_str t)) as G. rewrite A in G. exact G.
    + pose proof (axis_ctor_good n (t_str t)) as G. rewrite A in G. exact G.
  - pose proof (axis_ctor_good n s_child) as G. destruct (axis_ctor s_child); cbn; auto.
Qed.

Lemma step_prefix_spec n m tokens1 : W n m tokens1 ->
  match step_prefix tokens1 with
  | POk (_, t2) => W n m t2 /\ (tokens1 <> [] -> t2 <> [])
  | r => good n r
  end.
Proof.
  intros Hinv. unfold step_prefix.
  destruct (initial_tokens_match tokens1 [S_ NAME; S_ COLON; S_ NAME]) eqn:E1; cbn [orb].
  - apply initial_match_shape in E1. shape E1. cbn. split; [|discriminate].
    apply (W_skipn_after n m _ 1 t0 Hinv eq_refl). eapply kind_nonopener; [exact K0|reflexivity].
  - destruct (initial_tokens_match tokens1 [S_ NAME; S_ COLON; S_ ASTERISK]) eqn:E2.
    + apply initial_match_shape in E2. shape E2. cbn. split; [|discriminate].
      apply (W_skipn_after n m _ 1 t0 Hinv eq_refl). eapply kind_nonopener; [exact K0|reflexivity].
    + split; [exact Hinv|auto].
Qed.

Lemma node_type_lookup_some name : is_node_type_name name = true -> node_type_lookup name <> None.
Proof.
  unfold is_node_type_name, node_type_lookup. destruct (assoc name node_type_test_mapping); [|discriminate].
  intros _. destruct (kind_of_class_name s); discriminate.
Qed.

Lemma step_node_test_spec n m prefix tokens2 : W n m tokens2 -> tokens2 <> [] ->
  match step_node_test prefix tokens2 with
  | POk (_, t3) => W n m t3
  | r => good n r
  end.
Proof.
  intros Hinv Hne. unfold step_node_test.
  destruct (initial_tokens_match tokens2 [S_ NAME; S_ OPEN_PARENS; None; S_ CLOSE_PARENS]) eqn:E1.
  { apply initial_match_shape in E1. shape E1. cbn [nth_tok nth_group nth_error pbind].
    assert (Wr : W n m ts).
    { apply (W_skipn_after n m _ 3 t1 Hinv eq_refl). eapply kind_nonopener; [exact K1|reflexivity]. }
    destruct Hinv as [[H1 _] [H3 _]].
    destruct (group_inside n _ g H1 H3 ltac:(right; right; left; reflexivity)) as [_ [Hgw Hgn]].
    cbn [lall tall] in H1. destruct H1 as [Ht _]. unfold inb in Ht.
    destruct (negb _); [cbn; unfold pos_le; cbn; lia|].
    destruct g as [|[x|g'] gr]; [congruence| |cbn in Hgw; destruct Hgw as [Hgw _]; discriminate].
    cbn. exact Wr. }
  destruct (initial_tokens_match tokens2 [S_ NAME; S_ OPEN_PARENS; S_ CLOSE_PARENS]) eqn:E2.
  { apply initial_match_shape in E2. shape E2. cbn [nth_tok nth_error pbind].
    assert (Wr : W n m ts).
    { apply (W_skipn_after n m _ 2 t1 Hinv eq_refl). eapply kind_nonopener; [exact K1|reflexivity]. }
    destruct Hinv as [[H1 _] _]. cbn [lall tall] in H1. destruct H1 as [Ht _]. unfold inb in Ht.
    destruct (is_node_type_name (t_str t)) eqn:Nn; cbn [negb]; [|cbn; unfold pos_le; cbn; lia].
    pose proof (node_type_lookup_some _ Nn) as Lk. destruct (node_type_lookup (t_str t)); [|congruence].
    cbn. exact Wr. }
  destruct (initial_tokens_match tokens2 [S_ ASTERISK]) eqn:E3.
  { apply initial_match_shape in E3. shape E3.
    apply (W_skipn_after n m _ 0 t Hinv eq_refl). eapply kind_nonopener; [exact K|reflexivity]. }
  destruct (initial_tokens_match tokens2 [S_ NAME]) eqn:E4.
  { apply initial_match_shape in E4. shape E4. cbn.
    apply (W_skipn_after n m _ 0 t Hinv eq_refl). eapply kind_nonopener; [exact K|reflexivity]. }
  destruct (initial_tokens_match tokens2 [S_ STRUDEL; S_ NAME]) eqn:E5.
  { apply initial_match_shape in E5. shape E5. cbn. destruct Hinv as [[H1 _] _]. cbn in H1.
    unfold pos_le, inb in *; cbn. lia. }
  destruct tokens2 as [|[t|g] r]; [congruence| |exfalso; exact (W_head_not_group _ _ _ _ Hinv)].
  destruct Hinv as [[H1 _] _]. cbn in H1. unfold pos_le, inb in *; cbn. lia.
Qed.

Lemma parse_step_good n m pe tokens0 :
  pe_ok n m pe -> W n m tokens0 -> endok n tokens0 -> good n (parse_location_step pe tokens0).
Proof.
  intros Hpe Hinv Hend. unfold parse_location_step.
  pose proof (step_axis_spec n m tokens0 Hinv) as A.
  destruct (step_axis tokens0) as [[ax t1]|e|c|]; cbn [pbind fst snd]; try exact A.
  destruct A as [Hinv1 A].
  destruct (null tokens0) eqn:N0; [exact I|].
  destruct (null t1) eqn:N.
  - destruct t1; [|discriminate]. unfold step_missing_test. unfold endok in Hend.
    destruct A as [<-|[a [b [-> Hb]]]]; [discriminate|].
    cbn in *. unfold pos_le; cbn. apply Hend in Hb. unfold real_token in Hb. lia.
  - pose proof (step_prefix_spec n m t1 Hinv1) as B.
    destruct (step_prefix t1) as [[pf t2]|e|c|]; cbn [pbind fst snd]; try exact B.
    destruct B as [Hinv2 Hne2].
    assert (Hne1 : t1 <> []) by (destruct t1; [discriminate|discriminate]).
    pose proof (step_node_test_spec n m pf t2 Hinv2 (Hne2 Hne1)) as C.
    destruct (step_node_test pf t2) as [[nt t3]|e|c|]; cbn [pbind fst snd]; try exact C.
    apply rsat_bind; [eapply parse_predicates_good; [exact Hpe|apply Nat.le_refl|exact C]|]. intros; exact I.
Qed.

Lemma slash_not_opener : forall t, is_tok_kind SLASH (TT t) = true -> is_opener t = false.
Proof. apply sep_not_opener. reflexivity. Qed.
Lemma slash_not_closer : forall t, is_tok_kind SLASH (TT t) = true -> is_closer t = false.
Proof. apply sep_not_closer. reflexivity. Qed.
Lemma paseq_not_opener : forall t, is_tok_kind PASEQ (TT t) = true -> is_opener t = false.
Proof. apply sep_not_opener. reflexivity. Qed.
Lemma paseq_not_closer : forall t, is_tok_kind PASEQ (TT t) = true -> is_closer t = false.
Proof. apply sep_not_closer. reflexivity. Qed.

Lemma parse_path_good n m pe tokens :
  pe_ok n m pe -> lall (real_token n) tokens -> Forall (gsz m) tokens -> hwf false tokens -> seq2 tokens ->
  good n (parse_location_path pe tokens).
Proof.
  intros Hpe Hreal Hsz Hhw Hs2. unfold parse_location_path. destruct (null tokens) eqn:Nt; [exact I|].
  assert (Hinv : sinv n m (expand_axes tokens)).
  { apply expand_sinv. split; [eapply lall_impl; [apply real_inb|exact Hreal]|exact Hsz]. }
  pose proof (expand_seq_ok n tokens Hreal) as Hseq.
  pose proof (expand_hwf tokens false Hhw) as Hehw.
  pose proof (expand_seq2 tokens Hs2) as Hes2.
  destruct (expand_axes tokens) as [|[t0|g] r] eqn:E; [exfalso|idtac|exfalso].
  { destruct tokens as [|t r]; [discriminate|]. unfold expand_axes in E. cbn [flat_map] in E.
    apply app_eq_nil in E. destruct E as [E _]. exact (expand1_nonempty t E). }
  2:{ cbn in Hehw. destruct Hehw as [Hehw _]. discriminate. }
  rewrite <- E in *. apply rsat_bind; [|intros; exact I].
  apply rsat_pmap. intros part Hp. apply parse_step_good with (m := m); [exact Hpe| |].
  - split; [|split].
    + eapply sinv_sub; [|exact Hinv]. intros x Hx. eapply partition_In; eassumption.
    + exact (partition_hwf SLASH slash_not_opener _ [] I Hehw part Hp).
    + exact (partition_seq2 SLASH slash_not_closer _ [] Hes2 part Hp).
  - exact (partition_endok n _ [] Hseq (or_introl (I : endok n [])) part Hp).
Qed.

Lemma parse_tokens_good n fuel toks :
  Forall (real_token n) toks -> length toks < fuel -> good n (parse_tokens fuel toks).
Proof.
  intros Hreal Hlen. unfold parse_tokens.
  pose proof (group_spec n fuel toks Hlen Hreal) as G.
  destruct (group_enclosed_expressions fuel toks) as [tree|e|c|] eqn:Eg; cbn [pbind]; try exact G.
  destruct G as [G1 G2]. destruct (group_gwf _ _ _ Eg) as [Ghw [_ Gs2]].
  assert (Hpe : pe_ok n (length toks) (parse_evaluation_expression fuel)).
  { intros g Hg Hall Hw. apply parse_expr_good; [lia|exact Hall|exact Hw]. }
  assert (Hsz : Forall (gsz (length toks)) tree).
  { apply Forall_forall. intros x Hx. destruct x as [t|g]; [exact I|]. cbn.
    pose proof (tsize_In _ _ Hx) as T. rewrite tsize_TG in T. lia. }
  destruct (existsb (is_tok_kind PASEQ) tree).
  - apply rsat_pmap. intros part Hp. apply parse_path_good with (m := length toks); [exact Hpe| | | |].
    + eapply partition_lall; eassumption.
    + apply Forall_forall. intros x Hx. rewrite Forall_forall in Hsz. apply Hsz. eapply partition_In; eassumption.
    + exact (partition_hwf PASEQ paseq_not_opener _ [] I Ghw part Hp).
    + exact (partition_seq2 PASEQ paseq_not_closer _ [] Gs2 part Hp).
  - apply rsat_bind; [apply parse_path_good with (m := length toks); assumption|]. intros; exact I.
Qed.

(* the summary the property theorems are read off from: never a crash, never out of fuel *)
Definition outcome_ok (s : str) (o : outcome) : Prop :=
  match o with
  | OOk _ => True
  | ORej p _ _ => p <= length s
  | OCrash c => False
  | OFuel => False
  end.

Lemma parse_from_tokenize_ok s : outcome_ok s (parse s).
Proof.
  unfold parse, parse_from. pose proof (tokenize_spec s) as T.
  destruct (tokenize s) as [toks|e|c|]; cbn [pbind]; try contradiction.
  - destruct T as [T1 T2].
    pose proof (parse_tokens_good (length s) (S (length s)) toks T1 (le_n_S _ _ T2)) as G.
    destruct (parse_tokens (S (length s)) toks) as [a|e|c|]; cbn in *; try exact G; try exact I.
    unfold pos_le in G. destruct (x_pos e); [exact G|lia].
  - destruct T as [p [Hp1 Hp2]]. cbn. rewrite Hp1. lia.
Qed.

(* ---- lru_cache: what is stored is what a fresh call returns ---- *)
Definition cache_sound {V} (f : str -> option V) (c : cache V) : Prop :=
  forall k v, In (k, v) c -> f k = Some v.
Definition tok_fn (s : str) : option (list token) := match tokenize s with POk v => Some v | _ => None end.
Definition parse_fn (s : str) : option xpath_expr := match parse s with OOk v => Some v | _ => None end.
Definition caches_ok (cs : caches) : Prop :=
  cache_sound tok_fn (tok_cache cs) /\ cache_sound parse_fn (parse_cache cs).

Lemma cache_find_spec {V} : forall (c : cache V) k v c',
  cache_find c k = Some (v, c') -> In (k, v) c /\ (forall x, In x c' -> In x c).
Proof.
  induction c as [|[k' w] r IH]; intros k v c' H; cbn in H; [discriminate|].
  destruct (str_eqb k k') eqn:E.
  - apply str_eqb_eq in E. inversion H; subst. split; [left; reflexivity|intros x Hx; right; exact Hx].
  - destruct (cache_find r k) as [[w' r']|] eqn:F; [|discriminate]. inversion H; subst.
    destruct (IH _ _ _ F) as [I1 I2]. split; [right; exact I1|].
    intros x [<-|Hx]; [left; reflexivity|right; apply I2, Hx].
Qed.

Lemma In_firstn {A} (l : list A) k x : In x (firstn k l) -> In x l.
Proof. intros H. rewrite <- (firstn_skipn k l). apply in_or_app. left; exact H. Qed.

Lemma cache_put_sound {V} (f : str -> option V) size c k v :
  cache_sound f c -> f k = Some v -> cache_sound f (cache_put size c k v).
Proof.
  intros Hc Hk k' v' Hin. unfold cache_put in Hin. apply In_firstn in Hin.
  destruct Hin as [E|Hin]; [inversion E; subst; exact Hk|apply Hc, Hin].
Qed.
Lemma cache_put_length {V} size (c : cache V) k v : length (cache_put size c k v) <= size.
Proof. unfold cache_put. apply firstn_le_length. Qed.

Lemma cache_hit_sound {V} (f : str -> option V) c k v c' :
  cache_sound f c -> cache_find c k = Some (v, c') -> f k = Some v /\ cache_sound f ((k, v) :: c').
Proof.
  intros Hc H. apply cache_find_spec in H. destruct H as [H1 H2]. split; [apply Hc, H1|].
  intros k' v' [E|Hin]; [inversion E; subst; apply Hc, H1|apply Hc, H2, Hin].
Qed.

Lemma tokenize_cached_spec c s : cache_sound tok_fn c ->
  cache_sound tok_fn (fst (tokenize_cached c s)) /\ snd (tokenize_cached c s) = tokenize s.
Proof.
  intros Hc. unfold tokenize_cached. destruct (cache_find c s) as [[v c']|] eqn:F.
  - destruct (cache_hit_sound _ _ _ _ _ Hc F) as [H1 H2]. cbn. split; [exact H2|].
    unfold tok_fn in H1. destruct (tokenize s); try discriminate. inversion H1; reflexivity.
  - destruct (tokenize s) as [v|e|x|] eqn:T; cbn [fst snd]; split; try exact Hc; try reflexivity.
    apply cache_put_sound; [exact Hc|]. unfold tok_fn. rewrite T. reflexivity.
Qed.

Lemma parse_cached_spec cs s : caches_ok cs ->
  caches_ok (fst (parse_cached cs s)) /\ snd (parse_cached cs s) = parse s.
Proof.
  intros [Ht Hp]. unfold parse_cached. destruct (cache_find (parse_cache cs) s) as [[v pc']|] eqn:F.
  - destruct (cache_hit_sound _ _ _ _ _ Hp F) as [H1 H2]. cbn. split; [split; assumption|].
    unfold parse_fn in H1. destruct (parse s); try discriminate. inversion H1; reflexivity.
  - destruct (tokenize_cached_spec (tok_cache cs) s Ht) as [T1 T2].
    cbv zeta. rewrite T2. fold (parse s).
    destruct (parse s) as [v|p m u|c|] eqn:P; cbn [fst snd tok_cache parse_cache]; (split; [split; [exact T1|]|reflexivity]); try exact Hp.
    apply cache_put_sound; [exact Hp|]. unfold parse_fn. rewrite P. reflexivity.
Qed.

Lemma step_event_ok cs e : caches_ok cs -> caches_ok (step_event cs e).
Proof.
  intros H. destruct e as [s|s| |]; cbn [step_event].
  - apply parse_cached_spec, H.
  - destruct H as [Ht Hp]. split; [apply tokenize_cached_spec, Ht|exact Hp].
  - destruct H as [Ht _]. split; [exact Ht|intros k v []].
  - destruct H as [_ Hp]. split; [intros k v []|exact Hp].
Qed.

Lemma run_ok history : caches_ok (run history).
Proof.
  unfold run. assert (G : forall h cs, caches_ok cs -> caches_ok (fold_left step_event h cs)).
  { induction h as [|e h IH]; intros cs H; [exact H|]. cbn. apply IH, step_event_ok, H. }
  apply G. split; intros k v [].
Qed.

Lemma parse_cache_transparent history s : snd (parse_cached (run history) s) = parse s.
Proof. apply parse_cached_spec, run_ok. Qed.

Lemma parse_cache_bounded cs s :
  length (parse_cache cs) <= parse_cache_size -> length (parse_cache (fst (parse_cached cs s))) <= parse_cache_size.
Proof.
  intros H. unfold parse_cached. destruct (cache_find (parse_cache cs) s) as [[v pc']|] eqn:F.
  - cbn. assert (L : forall (c : cache xpath_expr) k v c', cache_find c k = Some (v, c') -> S (length c') = length c).
    { induction c as [|[k' w] r IH]; intros k0 v0 c0 E; cbn in E; [discriminate|].
      destruct (str_eqb k0 k'); [inversion E; subst; reflexivity|].
      destruct (cache_find r k0) as [[w' r']|] eqn:G; [|discriminate]. inversion E; subst. cbn. f_equal. eapply IH, G. }
    apply L in F. lia.
  - cbv zeta. destruct (parse_from s _); cbn [fst snd tok_cache parse_cache]; try exact H. apply cache_put_length.
Qed.


(* ---- the loop helpers of parser.py, translated statement by statement from the source on every run
        (Gen/GenXPathFns.v), are the functions the model uses ---- *)
Lemma compare_as_translated : forall tokens pat,
  compare_tokens_with_pattern tokens pat = gen_compare_tokens_with_pattern tokens pat.
Proof.
  unfold gen_compare_tokens_with_pattern.
  induction tokens as [|t r IH]; intros [|p ps]; cbn; try reflexivity.
  destruct t as [x|g], p as [k|]; cbn; try reflexivity.
  - destruct (tkind_eqb (t_kind x) k); cbn; [apply IH|reflexivity].
  - apply IH.
Qed.
Lemma all_tokens_match_as_translated tokens pat : all_tokens_match tokens pat = gen_all_tokens_match tokens pat.
Proof.
  unfold all_tokens_match, gen_all_tokens_match. rewrite compare_as_translated.
  destruct (Nat.eqb (length tokens) (length pat)); reflexivity.
Qed.
Lemma initial_tokens_match_as_translated tokens pat :
  initial_tokens_match tokens pat = gen_initial_tokens_match tokens pat.
Proof.
  unfold initial_tokens_match, gen_initial_tokens_match. rewrite compare_as_translated, Nat.leb_antisym.
  destruct (Nat.ltb (length tokens) (length pat)); reflexivity.
Qed.
Lemma partition_loop_as_translated sep : forall tokens cur out,
  gen_partition_tokens_loop sep tokens cur out = out ++ partition_aux sep tokens cur.
Proof.
  induction tokens as [|t r IH]; intros cur out; cbn [gen_partition_tokens_loop partition_aux]; [reflexivity|].
  replace (is_token t && tkind_eqb (tok_type t) sep) with (is_tok_kind sep t) by (destruct t; reflexivity).
  destruct (is_tok_kind sep t).
  - destruct cur as [|c cr]; cbn [null negb].
    + apply IH.
    + rewrite IH, <- app_assoc. reflexivity.
  - apply IH.
Qed.
Lemma partition_as_translated sep tokens : partition_tokens sep tokens = gen_partition_tokens sep tokens.
Proof. unfold gen_partition_tokens, partition_tokens. rewrite partition_loop_as_translated. reflexivity. Qed.
Lemma expand_step_as_translated t rest result :
  gen_expand_axes_loop (t :: rest) result = gen_expand_axes_loop rest (result ++ expand1 t).
Proof.
  destruct t as [[p s k]|g]; [|reflexivity].
  destruct k; reflexivity.
Qed.
Lemma expand_loop_as_translated : forall tokens result,
  gen_expand_axes_loop tokens result = result ++ expand_axes tokens.
Proof.
  induction tokens as [|t r IH]; intros result; [cbn; rewrite app_nil_r; reflexivity|].
  rewrite expand_step_as_translated, IH. unfold expand_axes. cbn [flat_map]. rewrite app_assoc. reflexivity.
Qed.
Lemma expand_as_translated tokens : expand_axes tokens = gen_expand_axes tokens.
Proof. unfold gen_expand_axes. rewrite expand_loop_as_translated. reflexivity. Qed.

(* ---- cached_property: a stored value is the value a fresh computation gives ---- *)
Lemma cached_properties_as_modelled : cached_properties = expected_cached_properties.
Proof. vm_compute. reflexivity. Qed.

Definition memo_sound {V} (f : nat -> V) (m : memo V) : Prop := forall k v, memo_find m k = Some v -> v = f k.
Lemma memo_read_spec {V} (f : nat -> V) m k : memo_sound f m ->
  memo_sound f (fst (memo_read f m k)) /\ snd (memo_read f m k) = f k.
Proof.
  intros H. unfold memo_read. destruct (memo_find m k) as [v|] eqn:E; cbn [fst snd].
  - split; [exact H|apply H, E].
  - split; [|reflexivity]. intros k' v'. cbn [memo_find]. destruct (Nat.eqb k' k) eqn:K.
    + apply Nat.eqb_eq in K. subst. intros X; inversion X; reflexivity.
    + apply H.
Qed.
Lemma memo_transparent {V} (f : nat -> V) reads k : snd (memo_read f (memo_run f reads) k) = f k.
Proof.
  apply memo_read_spec. unfold memo_run.
  assert (G : forall l m, memo_sound f m -> memo_sound f (fold_left (fun m k => fst (memo_read f m k)) l m)).
  { induction l as [|x l IH]; intros m H; [exact H|]. cbn. apply IH. apply memo_read_spec, H. }
  apply G. intros k' v'. discriminate.
Qed.

(* ---- statements of Props/C16.v ---- *)
Definition renders (s : str) (p : nat) (m : str) : Prop :=
  exists text, xpe_str (Some s) (Some p) (Some m) = Some text.

Lemma total s :
  (exists e, parse s = OOk e) \/ (exists p m u, parse s = ORej p m u /\ p <= length s /\ renders s p m).
Proof.
  pose proof (parse_from_tokenize_ok s) as H. destruct (parse s) as [e|p m u|c|]; cbn in H; try contradiction.
  - left. eauto.
  - right. exists p, m, u. repeat split; [exact H|]. eexists. reflexivity.
Qed.

Lemma total_under overflow s :
  (exists e, parse_under overflow s = OOk e)
  \/ (exists p m u, parse_under overflow s = ORej p m u /\ p <= length s /\ renders s p m).
Proof.
  unfold parse_under. destruct overflow; [|apply total].
  right. exists 0, msg_parse_0, false. repeat split; [apply Nat.le_0_l|]. eexists. reflexivity.
Qed.

Lemma terminates s : parse s <> OFuel.
Proof. pose proof (parse_from_tokenize_ok s) as H. intros E. rewrite E in H. exact H. Qed.

Lemma never_crashes s c : parse s <> OCrash c.
Proof. pose proof (parse_from_tokenize_ok s) as H. intros E. rewrite E in H. exact H. Qed.

Lemma position_in_range s p m u : parse s = ORej p m u -> p <= length s.
Proof. intros E. pose proof (parse_from_tokenize_ok s) as H. rewrite E in H. exact H. Qed.

(* the inputs on which the parser used to leave through a crash site (findings C16-*, all repaired) *)
Lemma regression :
  parse [97; 47]%N = ORej 0 msg_parse_location_step_0 false   (* a/ *) /\
  parse [47]%N = ORej 0 msg_parse_location_step_0 false   (* / *) /\
  parse [47; 47]%N = ORej 0 msg_parse_location_step_0 false   (* // *) /\
  parse [115; 101; 108; 102; 58; 58; 110; 111; 100; 101; 40; 41; 91; 49; 93; 47]%N = ORej 0 msg_parse_location_step_0 false   (* self::node()[1]/ *) /\
  parse [108; 97; 115; 116; 40; 41]%N = ORej 0 msg_parse_location_step_3 false   (* last() *) /\
  parse [97; 93]%N = ORej 1 (msg_group_enclosed_expressions_0 [93%N]) false   (* a] *) /\
  parse [97; 91; 49; 32; 111; 114; 93]%N = ORej 4 (msg_parse_evaluation_expression_2 [111; 114]%N) false   (* a[1 or] *) /\
  parse [97; 91; 61; 93]%N = ORej 2 (msg_parse_evaluation_expression_2 [61%N]) false   (* a[=] *) /\
  parse [102; 111; 111; 40; 49; 41]%N = ORej 0 msg_parse_location_step_2 false   (* foo(1) *) /\
  parse [99; 111; 109; 109; 101; 110; 116; 40; 49; 41]%N = ORej 0 msg_parse_location_step_2 false   (* comment(1) *) /\
  parse [97; 91; 102; 40; 44; 41; 93]%N = ORej 0 msg_parse_evaluation_expression_0 false   (* a[f(,)] *) /\
  parse [95; 95; 100; 105; 99; 116; 95; 95; 58; 58; 97]%N = ORej 0 msg_Axis_0 false   (* __dict__::a *) /\
  parse [97; 110; 99; 101; 115; 116; 111; 114; 95; 111; 114; 95; 115; 101; 108; 102; 58; 58; 97]%N = ORej 0 msg_Axis_0 false   (* ancestor_or_self::a *).
Proof. vm_compute. repeat split; reflexivity. Qed.
