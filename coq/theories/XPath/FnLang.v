(* The little language in which translate/gen_xeval.py states the bodies of the registered XPath
   functions of /repo/_delb/xpath/functions.py (Gen/GenXEval.v is regenerated from the source on every
   run; XPath/Eval.v interprets these bodies with Python's dynamic typing).  Definitions only. *)
From Delb.Base Require Import PyStr.

Inductive fbody :=
| FJoinAll                       (* return "".join(<varargs>) *)
| FIn (needle hay : nat)         (* return <param needle> in <param hay> *)
| FBool (i : nat)                (* return bool(<param i>) *)
| FNot (i : nat)                 (* return not <param i> *)
| FCtxSize                       (* return context.size *)
| FCtxPosition                   (* return context.position *)
| FStartsWith (s p : nat)        (* return <param s>.startswith(<param p>) *)
| FFirstTextChild                (* content of the first TextNode child of context.node, else "" *)
(* the same with functions._to_string applied to every argument (string(): str unchanged, bool -> "true"/"false",
   integral number -> its decimal numeral; the helper's body is pinned by the translator, Eval.py_to_string models it) *)
| FJoinAllS
| FInS (needle hay : nat)
| FStartsWithS (s p : nat).

(* parameters after the context parameter; variadic = the last one is *args *)
Record fdef := { f_nparams : nat; f_variadic : bool; f_body : fbody }.
Definition ftable := list (str * fdef).

Fixpoint f_lookup (t : ftable) (name : str) : option fdef :=
  match t with [] => None | (k, d) :: r => if str_eqb k name then Some d else f_lookup r name end.
