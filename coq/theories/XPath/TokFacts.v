(* Facts about the tokenizer model (Tok.v). *)
From Coq Require Import List NArith Arith Bool Lia.
From Delb.Base Require Import PyStr PyStrFacts.
From Delb.XPath Require Import XBase Tok.
From Delb.Gen Require Import GenXPath.
Import ListNotations.

(* the alternation read from the source on this run is the one the scanner implements *)
Lemma alternatives_as_modelled : tok_alternatives = expected_alternatives.
Proof. vm_compute. reflexivity. Qed.

Lemma py_prefix_length p s : py_prefix p s = true -> length p <= length s.
Proof.
  revert s. induction p as [|a p IH]; intros [|b s] H; cbn in *; try lia; try discriminate.
  apply andb_true_iff in H. destruct H as [_ H]. apply IH in H. lia.
Qed.

Lemma scan_string_bounds d s acc n : scan_string d s acc = Some n -> acc < n /\ n <= acc + length s.
Proof.
  revert acc. induction s as [s IH] using (well_founded_induction (Wf_nat.well_founded_ltof _ (@length char))).
  intros acc H. destruct s as [|c r]; cbn in H; try discriminate.
  destruct (N.eqb c d).
  - inversion H; subst. cbn. lia.
  - destruct (N.eqb c BACKSLASH).
    + destruct r as [|e r']; try discriminate. destruct (N.eqb e LF); try discriminate.
      apply IH in H; [|unfold ltof; cbn; lia]. cbn. lia.
    + apply IH in H; [|unfold ltof; cbn; lia]. cbn. lia.
Qed.

Lemma span_len_le p s : span_len p s <= length s.
Proof. induction s as [|c r IH]; cbn; [lia|]. destruct (p c); lia. Qed.

Lemma first_literal_bounds alts s k n :
  Forall (fun kl => 1 <= length (snd kl)) alts ->
  first_literal alts s = Some (k, n) -> 1 <= n /\ n <= length s.
Proof.
  induction alts as [|[k' l] r IH]; intros Hall H; cbn in H; try discriminate.
  inversion Hall as [|x y H1 H2]; subst; cbn in H1.
  destruct (py_prefix l s) eqn:E.
  - inversion H; subst. apply py_prefix_length in E. lia.
  - apply IH; assumption.
Qed.

Lemma literal_alts_nonempty : Forall (fun kl : tkind * str => 1 <= length (snd kl)) literal_alts.
Proof. unfold literal_alts. repeat constructor. Qed.

(* every alternative but ERROR consumes at least one character, and never more than there is *)
Lemma grab_bounds s k n : grab s = Some (k, n) -> 1 <= n /\ n <= length s.
Proof.
  unfold grab. destruct s as [|c r]; try discriminate.
  destruct (if is_quote c then scan_string c r 1 else None) as [m|] eqn:E.
  - intros H; inversion H; subst. destruct (is_quote c); try discriminate.
    apply scan_string_bounds in E. cbn. lia.
  - destruct (is_digit c).
    { intros H; inversion H; subst. pose proof (span_len_le is_digit r). cbn. lia. }
    destruct (is_name_start c).
    { intros H; inversion H; subst. pose proof (span_len_le is_name_char r). cbn. lia. }
    destruct (first_literal literal_alts (c :: r)) as [[k' n']|] eqn:F.
    { intros H; inversion H; subst. eapply first_literal_bounds; [apply literal_alts_nonempty|exact F]. }
    destruct (is_xml_space c); try discriminate.
    intros H; inversion H; subst. pose proof (span_len_le is_xml_space r). cbn. lia.
Qed.

(* what the loop of tokenize guarantees, for any start position *)
Definition real_token (n : nat) (t : token) : Prop :=
  1 <= length (t_str t) /\ t_pos t + length (t_str t) <= n.

Lemma lex_spec fuel : forall s pos, length s < fuel ->
  match lex fuel s pos with
  | POk l => concat (map t_str l) = s /\ Forall (real_token (pos + length s)) l
  | PRej e => exists p, x_pos e = Some p /\ p < pos + length s
  | PCrash _ => False
  | PFuel => False
  end.
Proof.
  induction fuel as [|fuel IH]; intros s pos Hlen; [inversion Hlen|].
  destruct s as [|c r]; [cbn; split; [reflexivity|constructor]|].
  cbn [lex]. destruct (grab (c :: r)) as [[k n]|] eqn:G.
  - apply grab_bounds in G. destruct G as [G1 G2].
    assert (Hs : length (skipn n (c :: r)) = length (c :: r) - n) by apply skipn_length.
    specialize (IH (skipn n (c :: r)) (pos + n)).
    assert (Hlt : length (skipn n (c :: r)) < fuel) by (rewrite Hs; cbn [length] in *; lia).
    specialize (IH Hlt).
    destruct (lex fuel (skipn n (c :: r)) (pos + n)) as [l|e|x|]; cbn [pbind]; try contradiction.
    + destruct IH as [IH1 IH2]. split.
      * cbn [map concat t_str]. rewrite IH1. apply firstn_skipn.
      * constructor.
        -- unfold real_token; cbn [t_str t_pos]. rewrite firstn_length. cbn [length] in *. lia.
        -- eapply Forall_impl; [|exact IH2]. intros t [Ha Hb]. split; [exact Ha|].
           rewrite Hs in Hb. cbn [length] in *. lia.
    + destruct IH as [p [Hp1 Hp2]]. exists p. split; [exact Hp1|]. rewrite Hs in Hp2. cbn [length] in *. lia.
  - exists pos. cbn. split; [reflexivity|lia].
Qed.

Lemma concat_length_ge (l : list token) :
  Forall (fun t => 1 <= length (t_str t)) l -> length l <= length (concat (map t_str l)).
Proof.
  induction 1 as [|t l H _ IH]; cbn; [lia|]. rewrite app_length. lia.
Qed.

(* tokens_concat: the lexemes (whitespace included) concatenate back to the expression *)
Lemma lexemes_concat s l : lexemes s = POk l -> concat (map t_str l) = s.
Proof.
  unfold lexemes. intros H. pose proof (lex_spec (S (length s)) s 0 (Nat.lt_succ_diag_r _)) as P.
  rewrite H in P. apply P.
Qed.

Lemma lexemes_total s :
  (exists l, lexemes s = POk l) \/ (exists e p, lexemes s = PRej e /\ x_pos e = Some p /\ p < length s).
Proof.
  unfold lexemes. pose proof (lex_spec (S (length s)) s 0 (Nat.lt_succ_diag_r _)) as P.
  destruct (lex (S (length s)) s 0) as [l|e|c|]; try contradiction.
  - left. eauto.
  - right. destruct P as [p [P1 P2]]. exists e, p. auto.
Qed.

Lemma tokenize_spec s :
  match tokenize s with
  | POk l => Forall (real_token (length s)) l /\ length l <= length s
  | PRej e => exists p, x_pos e = Some p /\ p < length s
  | PCrash _ => False
  | PFuel => False
  end.
Proof.
  unfold tokenize, lexemes. pose proof (lex_spec (S (length s)) s 0 (Nat.lt_succ_diag_r _)) as P.
  destruct (lex (S (length s)) s 0) as [l|e|c|]; cbn [pbind]; try contradiction; [|exact P].
  destruct P as [P1 P2]. cbn [plus] in P2. split.
  - apply Forall_forall. intros t Ht. apply filter_In in Ht. destruct Ht as [Ht _].
    rewrite Forall_forall in P2. apply P2, Ht.
  - assert (L1 : length (filter not_whitespace l) <= length l).
    { clear. induction l as [|a l IH]; cbn; [lia|]. destruct (not_whitespace a); cbn; lia. }
    assert (L2 : length l <= length s).
    { rewrite <- P1. apply concat_length_ge. eapply Forall_impl; [|exact P2]. intros t [Ha _]. exact Ha. }
    lia.
Qed.

(* the tokens are the non-whitespace lexemes, in order *)
Lemma tokenize_lexemes s l : tokenize s = POk l -> exists ls, lexemes s = POk ls /\ l = filter not_whitespace ls.
Proof.
  unfold tokenize. destruct (lexemes s) as [ls|e|c|]; cbn; intros H; try discriminate.
  inversion H. eauto.
Qed.
