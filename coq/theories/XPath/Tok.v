(* Model of /repo/_delb/xpath/tokenizer.py.  Definitions only (facts: TokFacts.v).

   grab_token is one regular expression, an ordered alternation searched from `pos`; because its
   last alternative `.*` matches the empty string, the search always succeeds *at* `pos`, so it is
   "try the alternatives in order at this position".  The scanner below is that alternation:

     STRING      (?P<d>[dquote squote])(\\.|[^\\])*?(?P=d)    scan_string: units are `\` + one character other
                                                   than newline, or one character other than `\`;
                                                   lazily, the first unit boundary holding the delimiter ends it
     NUMBER      \d+                               Unicode Nd (digit_ranges, generated)
     NAME        [start][start+extra]*             name_start_ranges / name_extra_ranges (generated)
     literals    // / * :: : .. . [ ] @ ( ) , |  and OTHER_OPS (+ - != <= >= < > =) in this order
     WHITESPACE  [ \n\t]+
     ERROR       .*                                -> XPathParsingError 'Unrecognized token.'

   TokFacts.alternatives_as_modelled proves that the alternation regenerated from the source
   (names, order, pattern texts, flags are checked by the generator) is `expected_alternatives`,
   which is computed from the very tables this scanner uses.

   tokenize's own partial operations (assert match is not None, match[token_type],
   getattr(TokenType, token_type), the unreachable RuntimeError) cannot fail: the search always
   matches, and the generator checks that every group name of the alternation except ERROR is a
   member of TokenType.  They are listed in Parse.model_audit as accounted for here. *)
From Coq Require Import List NArith Arith Bool.
From Delb.Base Require Import PyStr.
From Delb.XPath Require Import XBase.
From Delb.Gen Require Import GenXPath.
Import ListNotations.

Record token := mkTok { t_pos : nat; t_str : str; t_kind : tkind }.

Definition is_name_start (c : char) : bool := in_ranges c name_start_ranges.
Definition is_name_char (c : char) : bool := in_ranges c name_start_ranges || in_ranges c name_extra_ranges.
Definition is_digit (c : char) : bool := in_ranges c digit_ranges.
Definition is_quote (c : char) : bool := N.eqb c 34 || N.eqb c 39.
Definition is_xml_space (c : char) : bool := N.eqb c 32 || N.eqb c 10 || N.eqb c 9.
Definition BACKSLASH : char := 92%N.

(* s = what follows the opening delimiter d; acc = characters consumed so far; result = length of the token *)
Fixpoint scan_string (d : char) (s : str) (acc : nat) : option nat :=
  match s with
  | [] => None
  | c :: r =>
      if N.eqb c d then Some (S acc)
      else if N.eqb c BACKSLASH then
        match r with
        | [] => None
        | e :: r' => if N.eqb e LF then None else scan_string d r' (S (S acc))
        end
      else scan_string d r (S acc)
  end.

Fixpoint span_len (p : char -> bool) (s : str) : nat :=
  match s with c :: r => if p c then S (span_len p r) else 0 | [] => 0 end.

(* the fixed-text alternatives, in the order of the alternation *)
Definition literal_alts : list (tkind * str) :=
  [ (SLASH_SLASH, [47; 47]); (SLASH, [47]); (ASTERISK, [42]); (AXIS_SEPARATOR, [58; 58]); (COLON, [58]);
    (DOT_DOT, [46; 46]); (DOT, [46]); (OPEN_BRACKET, [91]); (CLOSE_BRACKET, [93]); (STRUDEL, [64]);
    (OPEN_PARENS, [40]); (CLOSE_PARENS, [41]); (COMMA, [44]); (PASEQ, [124]);
    (OTHER_OPS, [43]); (OTHER_OPS, [45]); (OTHER_OPS, [33; 61]); (OTHER_OPS, [60; 61]); (OTHER_OPS, [62; 61]);
    (OTHER_OPS, [60]); (OTHER_OPS, [62]); (OTHER_OPS, [61]) ]%N.

Fixpoint first_literal (alts : list (tkind * str)) (s : str) : option (tkind * nat) :=
  match alts with
  | [] => None
  | (k, l) :: r => if py_prefix l s then Some (k, length l) else first_literal r s
  end.

(* one step of the alternation on the non-consumed rest of the expression: kind and length; None = ERROR *)
Definition grab (s : str) : option (tkind * nat) :=
  match s with
  | [] => None
  | c :: r =>
      match (if is_quote c then scan_string c r 1 else None) with
      | Some n => Some (STRING, n)
      | None =>
          if is_digit c then Some (NUMBER, S (span_len is_digit r))
          else if is_name_start c then Some (NAME, S (span_len is_name_char r))
          else match first_literal literal_alts s with
               | Some kn => Some kn
               | None => if is_xml_space c then Some (WHITESPACE, S (span_len is_xml_space r)) else None
               end
      end
  end.

(* while index < end: ...; all lexemes, WHITESPACE included *)
Fixpoint lex (fuel : nat) (s : str) (pos : nat) : pres (list token) :=
  match s with
  | [] => POk []
  | _ :: _ =>
      match fuel with
      | O => PFuel
      | S fuel' =>
          match grab s with
          | None => PRej (mkXpe (Some pos) msg_tokenize_0 false)
          | Some (k, n) =>
              rest <- lex fuel' (skipn n s) (pos + n) ;;
              POk (mkTok pos (firstn n s) k :: rest)
          end
      end
  end.

Definition not_whitespace (t : token) : bool := negb (tkind_eqb (t_kind t) WHITESPACE).

Definition lexemes (s : str) : pres (list token) := lex (S (length s)) s 0.
Definition tokenize (s : str) : pres (list token) :=
  l <- lexemes s ;; POk (filter not_whitespace l).

(* ---- the alternation this scanner implements, as regex texts, computed from its own tables ---- *)
Definition rx_special (c : char) : bool :=
  existsb (N.eqb c) [42; 46; 91; 93; 40; 41; 124; 43; 92]%N.     (* * . [ ] ( ) | + \ *)
Definition rx_escape (l : str) : str := flat_map (fun c => if rx_special c then [BACKSLASH; c] else [c]) l.

(* consecutive literals of one kind form one group (a|b|c) *)
Fixpoint group_literals (alts : list (tkind * str)) (cur : option (tkind * list str)) : list (tkind * list str) :=
  match alts with
  | [] => match cur with Some g => [g] | None => [] end
  | (k, l) :: r =>
      match cur with
      | Some (k', ls) => if tkind_eqb k k' then group_literals r (Some (k', ls ++ [l]))
                         else (k', ls) :: group_literals r (Some (k, [l]))
      | None => group_literals r (Some (k, [l]))
      end
  end.

Definition literal_rx (ls : list str) : str :=
  match ls with
  | [l] => rx_escape l
  | _ => [40%N] ++ py_join [124%N] (map rx_escape ls) ++ [41%N]
  end.

Definition string_rx : str :=     (* (?P<stringDelimiter>[dquote squote])(\\.|[^\\])*?(?P=stringDelimiter) *)
  [40;63;80;60;115;116;114;105;110;103;68;101;108;105;109;105;116;101;114;62;91;34;39;93;41;40;92;92;46;124;91;94;
   92;92;93;41;42;63;40;63;80;61;115;116;114;105;110;103;68;101;108;105;109;105;116;101;114;41]%N.
Definition number_rx : str := [92; 100; 43]%N.                                        (* \d+ *)
Definition name_rx : str :=        (* [<name_start_ranges>][<name_start_ranges><name_extra_ranges>]* *)
  [91;60;110;97;109;101;95;115;116;97;114;116;95;114;97;110;103;101;115;62;93;91;60;110;97;109;101;95;115;116;97;114;
   116;95;114;97;110;103;101;115;62;60;110;97;109;101;95;101;120;116;114;97;95;114;97;110;103;101;115;62;93;42]%N.
Definition whitespace_rx : str := [91; 32; 10; 9; 93; 43]%N.                          (* [ \n\t]+ *)
Definition error_rx : str := [46; 42]%N.                                              (* .* *)
Definition ERROR_name : str := [69; 82; 82; 79; 82]%N.

Definition expected_alternatives : list (str * str) :=
  [(tkind_name STRING, string_rx); (tkind_name NUMBER, number_rx); (tkind_name NAME, name_rx)]
  ++ map (fun g => (tkind_name (fst g), literal_rx (snd g))) (group_literals literal_alts None)
  ++ [(tkind_name WHITESPACE, whitespace_rx); (ERROR_name, error_rx)].
