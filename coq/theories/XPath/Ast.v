(* The XPath abstract syntax as the parser of /repo/_delb/xpath/parser.py produces it: one
   constructor per node class of /repo/_delb/xpath/ast.py.  Definitions only.

     XPathExpression(location_paths)                       xpath_expr = list path
     LocationPath(location_steps, absolute)                LocationPath absolute steps
        (parent_path is derived: the same path without its last step; not stored)
     LocationStep(axis, node_test, predicates)             LocationStep axis test predicates
     Axis(name)                                            axis
     NameMatchTest / AnyNameTest / NodeTypeTest / ProcessingInstructionTest      node_test
     AnyValue / AttributeValue / HasAttribute / BooleanOperator / Function      expr

   Facts about what the parser emits that fix the shape (design_probes/xp_model.py, 280 000 strings):
   * AnyValue carries a Python `str` (the token without its quotes, escapes NOT processed) or a
     non-negative `int` (int() of a run of Unicode Nd digits); nothing else.
   * a predicate that is a bare number n is stored as BooleanOperator(eq, Function position (), AnyValue n).
   * `@a` is HasAttribute as a whole predicate or as an operand of and/or, and AttributeValue as an
     operand of a comparison or as a function argument.
   * `processing-instruction()` is NodeTypeTest(ProcessingInstructionNode); ProcessingInstructionTest
     always has a target string.
   * NodeTypeTest stores the *class name* NODE_TYPE_TEST_MAPPING gives (node() -> TagNode).
   * Axis(name) accepts `name` when `getattr(axis_object, name.replace("-","_"), None)` is not None:
     the eleven generator methods, but also every other attribute of an Axis object (`evaluate`,
     `__class__`, `__eq__`, `__dict__`, ...).  Those are AxOther; the string is generator.__name__
     when the attribute has one, else the literal "<junk>" (what Axis.__eq__/__repr__ would look at).
   * Function(name, args): `name` is a key of plugin_manager.xpath_functions; the table of accepted
     names and arities is generated (it is a plugin registry), so the name stays a string here. *)
From Delb.Base Require Import PyStr.

Inductive axis :=
| AxAncestor | AxAncestorOrSelf | AxChild | AxDescendant | AxDescendantOrSelf
| AxFollowing | AxFollowingSibling | AxParent | AxPreceding | AxPrecedingSibling | AxSelf
| AxOther (generator_name : str).

(* the values of NODE_TYPE_TEST_MAPPING *)
Inductive node_kind := KTagNode | KTextNode | KCommentNode | KProcessingInstructionNode.

Inductive node_test :=
| NameMatchTest (prefix : option str) (local_name : str)
| AnyNameTest (prefix : option str)
| NodeTypeTest (type_name : node_kind)
| ProcessingInstructionTest (target : str).

Inductive value := VStr (s : str) | VNum (n : N).

(* parser.py OPERATORS: operator.le lt ge gt eq ne and_ or_ *)
Inductive binop := OpLe | OpLt | OpGe | OpGt | OpEq | OpNe | OpAnd | OpOr.

Inductive expr :=
| AnyValue (v : value)
| AttributeValue (prefix : option str) (local_name : str)
| HasAttribute (prefix : option str) (local_name : str)
| BooleanOperator (op : binop) (left right : expr)
| Function (name : str) (arguments : list expr).

Inductive step := LocationStep (ax : axis) (test : node_test) (predicates : list expr).
Inductive path := LocationPath (absolute : bool) (steps : list step).
Definition xpath_expr := list path.             (* XPathExpression.location_paths *)

Definition step_axis (s : step) := match s with LocationStep a _ _ => a end.
Definition step_test (s : step) := match s with LocationStep _ t _ => t end.
Definition step_preds (s : step) := match s with LocationStep _ _ p => p end.
Definition path_abs (p : path) := match p with LocationPath a _ => a end.
Definition path_steps (p : path) := match p with LocationPath _ s => s end.

(* expr is a nested inductive: induction principle with Forall over the arguments *)
Section ExprInd.
  Variable P : expr -> Prop.
  Hypothesis HVal : forall v, P (AnyValue v).
  Hypothesis HAttr : forall p l, P (AttributeValue p l).
  Hypothesis HHas : forall p l, P (HasAttribute p l).
  Hypothesis HOp : forall op l r, P l -> P r -> P (BooleanOperator op l r).
  Hypothesis HFn : forall name args, Forall P args -> P (Function name args).
  Fixpoint expr_ind' (e : expr) : P e :=
    match e with
    | AnyValue v => HVal v
    | AttributeValue p l => HAttr p l
    | HasAttribute p l => HHas p l
    | BooleanOperator op l r => HOp op l r (expr_ind' l) (expr_ind' r)
    | Function name args =>
        HFn name args ((fix go (l : list expr) : Forall P l :=
                          match l with [] => Forall_nil P | x :: r => Forall_cons x (expr_ind' x) (go r) end) args)
    end.
End ExprInd.

(* ---- decidable equality (boolean), used to compare ASTs inside Coq ---- *)
Definition opt_str_eqb (a b : option str) : bool :=
  match a, b with None, None => true | Some x, Some y => str_eqb x y | _, _ => false end.

Definition axis_eqb (a b : axis) : bool :=
  match a, b with
  | AxAncestor, AxAncestor | AxAncestorOrSelf, AxAncestorOrSelf | AxChild, AxChild
  | AxDescendant, AxDescendant | AxDescendantOrSelf, AxDescendantOrSelf | AxFollowing, AxFollowing
  | AxFollowingSibling, AxFollowingSibling | AxParent, AxParent | AxPreceding, AxPreceding
  | AxPrecedingSibling, AxPrecedingSibling | AxSelf, AxSelf => true
  | AxOther x, AxOther y => str_eqb x y
  | _, _ => false
  end.

Definition node_kind_eqb (a b : node_kind) : bool :=
  match a, b with
  | KTagNode, KTagNode | KTextNode, KTextNode | KCommentNode, KCommentNode
  | KProcessingInstructionNode, KProcessingInstructionNode => true
  | _, _ => false
  end.

Definition node_test_eqb (a b : node_test) : bool :=
  match a, b with
  | NameMatchTest p l, NameMatchTest q m => opt_str_eqb p q && str_eqb l m
  | AnyNameTest p, AnyNameTest q => opt_str_eqb p q
  | NodeTypeTest k, NodeTypeTest j => node_kind_eqb k j
  | ProcessingInstructionTest t, ProcessingInstructionTest u => str_eqb t u
  | _, _ => false
  end.

Definition value_eqb (a b : value) : bool :=
  match a, b with VStr x, VStr y => str_eqb x y | VNum x, VNum y => N.eqb x y | _, _ => false end.

Definition binop_eqb (a b : binop) : bool :=
  match a, b with
  | OpLe, OpLe | OpLt, OpLt | OpGe, OpGe | OpGt, OpGt | OpEq, OpEq | OpNe, OpNe | OpAnd, OpAnd | OpOr, OpOr => true
  | _, _ => false
  end.

Fixpoint expr_eqb (a b : expr) : bool :=
  match a, b with
  | AnyValue v, AnyValue w => value_eqb v w
  | AttributeValue p l, AttributeValue q m => opt_str_eqb p q && str_eqb l m
  | HasAttribute p l, HasAttribute q m => opt_str_eqb p q && str_eqb l m
  | BooleanOperator o l r, BooleanOperator o' l' r' => binop_eqb o o' && expr_eqb l l' && expr_eqb r r'
  | Function n args, Function n' args' =>
      str_eqb n n' &&
      (fix go (x y : list expr) : bool :=
         match x, y with
         | [], [] => true
         | e :: x', f :: y' => expr_eqb e f && go x' y'
         | _, _ => false
         end) args args'
  | _, _ => false
  end.

Fixpoint list_eqb {A} (f : A -> A -> bool) (x y : list A) : bool :=
  match x, y with [], [] => true | a :: x', b :: y' => f a b && list_eqb f x' y' | _, _ => false end.

Definition step_eqb (a b : step) : bool :=
  match a, b with
  | LocationStep x t p, LocationStep y u q => axis_eqb x y && node_test_eqb t u && list_eqb expr_eqb p q
  end.
Definition path_eqb (a b : path) : bool :=
  match a, b with
  | LocationPath x s, LocationPath y t => Bool.eqb x y && list_eqb step_eqb s t
  end.
Definition xpath_expr_eqb : xpath_expr -> xpath_expr -> bool := list_eqb path_eqb.
