(* Lemmas relating the evaluator mirror (Eval.v) to the reference semantics (Ref.v) on the domain in_subset
   (Subset.v).  Order: de-duplication, axes, node tests, predicate expressions, predicate filtering, one step on
   one node, steps over node-sets, paths, unions. *)
From Coq Require Import Lia.
From Delb.Base Require Import PyStr PyStrFacts.
From Delb.Tree Require Import ATree ITree.
From Delb.XPath Require Import Ast Nav FnLang Eval Ref Subset.
From Delb.Gen Require Import GenXEval.

(* ---------------------------------------------------------------- positions, de-duplication *)
Lemma path_eqb_eq a b : path_eqb a b = true <-> a = b.
Proof.
  revert b; induction a as [|x a IH]; intros [|y b]; cbn; split; intro H; try reflexivity; try discriminate.
  - apply andb_prop in H as [H1 H2]. apply Nat.eqb_eq in H1. apply IH in H2. congruence.
  - inversion H; subst. rewrite Nat.eqb_refl. cbn. apply IH. reflexivity.
Qed.
Lemma path_eqb_refl a : path_eqb a a = true. Proof. apply path_eqb_eq. reflexivity. Qed.
Lemma path_mem_In p l : path_mem p l = true <-> In p l.
Proof.
  induction l as [|q l IH]; cbn; [split; [discriminate|tauto]|].
  rewrite orb_true_iff, IH, path_eqb_eq. split; intros [H|H]; auto.
Qed.

Lemma dedup_aux_spec seen l :
  NoDup (map fst (dedup_aux seen l)) /\
  (forall x, In x (dedup_aux seen l) -> In x l /\ ~ In (fst x) seen) /\
  (forall x, In x l -> ~ In (fst x) seen -> In (fst x) (map fst (dedup_aux seen l))).
Proof.
  revert seen; induction l as [|y l IH]; intro seen; cbn.
  - split; [constructor|]. split; [tauto|tauto].
  - destruct (path_mem (fst y) seen) eqn:Hm.
    + destruct (IH seen) as (N & A & B). split; [exact N|]. split.
      * intros x Hx. destruct (A x Hx). auto.
      * intros x [->|Hx] Hs; [apply path_mem_In in Hm; contradiction|auto].
    + destruct (IH (fst y :: seen)) as (N & A & B). cbn. split; [|split].
      * constructor; [|exact N]. intro Hin. apply in_map_iff in Hin as (z & Hz & Hin).
        destruct (A z Hin) as [_ Hn]. apply Hn. left. auto.
      * intros x [->|Hx].
        -- split; [auto|]. intro Hs. apply path_mem_In in Hs. congruence.
        -- destruct (A x Hx) as [H1 H2]. split; [auto|]. intro Hs. apply H2. right. exact Hs.
      * intros x [->|Hx] Hs; [left; reflexivity|].
        destruct (path_eqb (fst y) (fst x)) eqn:E.
        -- apply path_eqb_eq in E. left. exact E.
        -- right. apply B; [exact Hx|]. intros [H|H]; [|contradiction].
           rewrite H, path_eqb_refl in E. discriminate.
Qed.
Lemma dedup_NoDup_fst l : NoDup (map fst (dedup l)).
Proof. apply (dedup_aux_spec [] l). Qed.
Lemma NoDup_map_inv {A B} (f : A -> B) l : NoDup (map f l) -> NoDup l.
Proof.
  induction l as [|x l IH]; cbn; intro H; [constructor|]. inversion H; subst.
  constructor; [|auto]. intro Hin. apply H2. apply in_map. exact Hin.
Qed.
Lemma dedup_NoDup l : NoDup (dedup l).
Proof. eapply NoDup_map_inv. apply dedup_NoDup_fst. Qed.
Lemma dedup_subset l x : In x (dedup l) -> In x l.
Proof. intro H. apply (dedup_aux_spec [] l) in H. tauto. Qed.
Lemma dedup_complete_fst l x : In x l -> In (fst x) (map fst (dedup l)).
Proof. intro H. apply (dedup_aux_spec [] l); auto. Qed.

(* ---------------------------------------------------------------- axes *)
Lemma filter_all_true {A} (f : A -> bool) l : (forall x, In x l -> f x = true) -> filter f l = l.
Proof.
  induction l as [|x l IH]; cbn; intro H; [reflexivity|].
  rewrite (H x (or_introl eq_refl)). f_equal. apply IH. intros; apply H; right; assumption.
Qed.

Lemma desc_list_nonnil f i l : Forall (fun x => fst x <> []) (desc_list f i l).
Proof.
  revert i; induction l as [|k l IH]; intro i; cbn; [constructor|].
  constructor; [discriminate|]. apply Forall_app. split; [|apply IH].
  apply Forall_forall. intros x Hx. apply in_map_iff in Hx as (y & <- & _). discriminate.
Qed.
Lemma descendants_doc_nonnil D : Forall (fun x => is_doc x = false) (descendants ([], D)).
Proof.
  unfold descendants. apply Forall_forall. intros x Hx. apply in_map_iff in Hx as (y & <- & Hy).
  assert (Hn : fst y <> []).
  { destruct D as [i p kids]. destruct p; cbn in Hy; try contradiction.
    pose proof (desc_list_nonnil desc_rel 0 kids) as F. rewrite Forall_forall in F. apply F. exact Hy. }
  unfold is_doc, rebase. cbn. destruct (fst y); [congruence|reflexivity].
Qed.

Lemma before_subset p l x : In x (before p l) -> In x l.
Proof.
  induction l as [|y l IH]; cbn; [tauto|]. destruct (path_eqb (fst y) p); cbn; [tauto|].
  intros [H|H]; auto.
Qed.

(* the generated table of Axis generator methods is the one d_axis mirrors *)
Definition S_ (s : list N) : str := s.
Lemma axis_generators_are_modelled :
  map fst axis_generators =
  [ [97;110;99;101;115;116;111;114]; [97;110;99;101;115;116;111;114;95;111;114;95;115;101;108;102];
    [99;104;105;108;100]; [100;101;115;99;101;110;100;97;110;116];
    [100;101;115;99;101;110;100;97;110;116;95;111;114;95;115;101;108;102];
    [102;111;108;108;111;119;105;110;103]; [102;111;108;108;111;119;105;110;103;95;115;105;98;108;105;110;103];
    [112;97;114;101;110;116]; [112;114;101;99;101;100;105;110;103];
    [112;114;101;99;101;100;105;110;103;95;115;105;98;108;105;110;103]; [115;101;108;102] ]%N.
Proof. reflexivity. Qed.

(* Each axis of the evaluator is the reference axis of the deviated expression: same nodes, same (proximity) order. *)
Lemma axis_agrees D a a' n :
  x_axis true a = Some a' -> (is_doc n = false \/ downward a = true) ->
  d_axis D a n = (r_axis D a' n, None).
Proof.
  intros Hx Hd. destruct n as [p t].
  destruct a; cbn in Hx; inversion Hx; subst; clear Hx; cbn [d_axis r_axis fst snd];
    try reflexivity;
    try (destruct Hd as [Hd|Hd]; [rewrite Hd|discriminate Hd]; try reflexivity).
  - (* following *)
    rewrite filter_all_true; [reflexivity|]. intros x _. destruct (is_prefix p (fst x)); reflexivity.
  - (* preceding *)
    unfold all_nodes. cbn [before fst].
    destruct p as [|i p]; [discriminate Hd|]. cbn [path_eqb]. cbn [rev].
    rewrite filter_app. cbn [filter is_doc fst null]. cbn.
    rewrite app_nil_r. rewrite filter_all_true; [reflexivity|].
    intros x Hx. apply in_rev in Hx. apply before_subset in Hx.
    pose proof (descendants_doc_nonnil D) as F. rewrite Forall_forall in F. rewrite (F x Hx).
    destruct (is_prefix (fst x) (i :: p)); reflexivity.
Qed.

(* ---------------------------------------------------------------- node tests *)
Lemma unknown_prefix_bound m q ns : ns_get m q = Some ns -> unknown_prefix m (Some q) = false.
Proof. intro H. unfold unknown_prefix. rewrite H. reflexivity. Qed.

Lemma test_agrees m t t' c :
  x_test true m t = Some t' -> (is_doc c && doc_passes_wrongly t = false) ->
  d_test m t c = Ok (r_test t' c).
Proof.
  intros Hx Hd. destruct c as [p n]. unfold r_test, d_test, is_tagnode.
  destruct t as [pre l|pre|k|tg]; cbn in Hx.
  - (* NameMatchTest *)
    destruct pre as [q|].
    + destruct (ns_get m q) as [ns|] eqn:E; inversion Hx; subst; clear Hx.
      rewrite (unknown_prefix_bound _ _ _ E). destruct (is_doc (p, n)) eqn:Hdoc; cbn; [reflexivity|].
      destruct n as [i pay kids]; destruct pay; cbn; try reflexivity. rewrite E. reflexivity.
    + inversion Hx; subst; clear Hx. cbn. destruct (is_doc (p, n)) eqn:Hdoc; cbn; [reflexivity|].
      destruct n as [i pay kids]; destruct pay; cbn; reflexivity.
  - (* AnyNameTest *)
    destruct pre as [q|].
    + destruct q as [|x q]; [discriminate|].
      destruct (ns_get m (x :: q)) as [ns|] eqn:E; inversion Hx; subst; clear Hx.
      rewrite (unknown_prefix_bound _ _ _ E). destruct (is_doc (p, n)) eqn:Hdoc; cbn; [reflexivity|].
      destruct n as [i pay kids]; destruct pay; cbn; try reflexivity. rewrite E. reflexivity.
    + inversion Hx; subst; clear Hx. cbn. destruct (is_doc (p, n)) eqn:Hdoc; cbn; [reflexivity|].
      destruct n as [i pay kids]; destruct pay; cbn; reflexivity.
  - (* NodeTypeTest *)
    destruct (is_doc (p, n)) eqn:Hdoc; cbn in Hd |- *.
    + destruct k; cbn in Hd; try discriminate. inversion Hx; subst. reflexivity.
    + destruct k; inversion Hx; subst; clear Hx; destruct n as [i pay kids]; destruct pay; reflexivity.
  - (* ProcessingInstructionTest *)
    inversion Hx; subst; clear Hx. destruct (is_doc (p, n)) eqn:Hdoc; cbn in Hd |- *; [discriminate|].
    destruct n as [i pay kids]; destruct pay; reflexivity.
Qed.

Lemma filter_test_agrees m t t' l :
  (forall c, In c l -> d_test m t c = Ok (r_test t' c)) -> filter_test m t l = Ok (filter (r_test t') l).
Proof.
  induction l as [|c l IH]; cbn; intro H; [reflexivity|].
  rewrite (H c (or_introl eq_refl)). cbn. rewrite IH by (intros; apply H; right; assumption). cbn.
  destruct (r_test t' c); reflexivity.
Qed.
