(* Lemmas relating the evaluator mirror (Eval.v) to the reference semantics (Ref.v) on the domain in_subset
   (Subset.v).  Order: de-duplication, axes, node tests, predicate expressions, predicate filtering, one step on
   one node, steps over node-sets, paths, unions. *)
From Coq Require Import Lia.
From Delb.Base Require Import PyStr PyStrFacts.
From Delb.Tree Require Import ATree ITree.
From Delb.XPath Require Import Ast Nav FnLang Num Eval Ref Subset.
From Delb.Gen Require Import GenXEval.

(* ---------------------------------------------------------------- positions, de-duplication *)
Lemma path_eqb_eq a b : path_eqb a b = true <-> a = b.
Proof.
  revert b; induction a as [|x a IH]; intros [|y b]; cbn; split; intro H; try reflexivity; try discriminate.
  - apply andb_prop in H as [H1 H2]. apply Nat.eqb_eq in H1. apply IH in H2. congruence.
  - inversion H; subst. rewrite Nat.eqb_refl. cbn. apply IH. reflexivity.
Qed.
Lemma path_eqb_refl a : path_eqb a a = true. Proof. apply path_eqb_eq. reflexivity. Qed.
Lemma path_mem_In p l : path_mem p l = true <-> In p l.
Proof.
  induction l as [|q l IH]; cbn; [split; [discriminate|tauto]|].
  rewrite orb_true_iff, IH, path_eqb_eq. split; intros [H|H]; auto.
Qed.

Lemma dedup_aux_spec seen l :
  NoDup (map fst (dedup_aux seen l)) /\
  (forall x, In x (dedup_aux seen l) -> In x l /\ ~ In (fst x) seen) /\
  (forall x, In x l -> ~ In (fst x) seen -> In (fst x) (map fst (dedup_aux seen l))).
Proof.
  revert seen; induction l as [|y l IH]; intro seen; cbn.
  - split; [constructor|]. split; [tauto|tauto].
  - destruct (path_mem (fst y) seen) eqn:Hm.
    + destruct (IH seen) as (N & A & B). split; [exact N|]. split.
      * intros x Hx. destruct (A x Hx). auto.
      * intros x [->|Hx] Hs; [apply path_mem_In in Hm; contradiction|auto].
    + destruct (IH (fst y :: seen)) as (N & A & B). cbn. split; [|split].
      * constructor; [|exact N]. intro Hin. apply in_map_iff in Hin as (z & Hz & Hin).
        destruct (A z Hin) as [_ Hn]. apply Hn. left. auto.
      * intros x [->|Hx].
        -- split; [auto|]. intro Hs. apply path_mem_In in Hs. congruence.
        -- destruct (A x Hx) as [H1 H2]. split; [auto|]. intro Hs. apply H2. right. exact Hs.
      * intros x [->|Hx] Hs; [left; reflexivity|].
        destruct (path_eqb (fst y) (fst x)) eqn:E.
        -- apply path_eqb_eq in E. left. exact E.
        -- right. apply B; [exact Hx|]. intros [H|H]; [|contradiction].
           rewrite H, path_eqb_refl in E. discriminate.
Qed.
Lemma dedup_NoDup_fst l : NoDup (map fst (dedup l)).
Proof. apply (dedup_aux_spec [] l). Qed.
Lemma NoDup_map_inv {A B} (f : A -> B) l : NoDup (map f l) -> NoDup l.
Proof.
  induction l as [|x l IH]; cbn; intro H; [constructor|]. inversion H; subst.
  constructor; [|auto]. intro Hin. apply H2. apply in_map. exact Hin.
Qed.
Lemma dedup_NoDup l : NoDup (dedup l).
Proof. eapply NoDup_map_inv. apply dedup_NoDup_fst. Qed.
Lemma dedup_subset l x : In x (dedup l) -> In x l.
Proof. intro H. apply (dedup_aux_spec [] l) in H. tauto. Qed.
Lemma dedup_complete_fst l x : In x l -> In (fst x) (map fst (dedup l)).
Proof. intro H. apply (dedup_aux_spec [] l); auto. Qed.

(* ---------------------------------------------------------------- axes *)
Lemma filter_all_true {A} (f : A -> bool) l : (forall x, In x l -> f x = true) -> filter f l = l.
Proof.
  induction l as [|x l IH]; cbn; intro H; [reflexivity|].
  rewrite (H x (or_introl eq_refl)). f_equal. apply IH. intros; apply H; right; assumption.
Qed.

Lemma desc_list_nonnil f i l : Forall (fun x => fst x <> []) (desc_list f i l).
Proof.
  revert i; induction l as [|k l IH]; intro i; cbn; [constructor|].
  constructor; [discriminate|]. apply Forall_app. split; [|apply IH].
  apply Forall_forall. intros x Hx. apply in_map_iff in Hx as (y & <- & _). discriminate.
Qed.
Lemma descendants_doc_nonnil D : Forall (fun x => is_doc x = false) (descendants ([], D)).
Proof.
  unfold descendants. apply Forall_forall. intros x Hx. apply in_map_iff in Hx as (y & <- & Hy).
  assert (Hn : fst y <> []).
  { destruct D as [i p kids]. destruct p; cbn in Hy; try contradiction.
    pose proof (desc_list_nonnil desc_rel 0 kids) as F. rewrite Forall_forall in F. apply F. exact Hy. }
  unfold is_doc, rebase. cbn. destruct (fst y); [congruence|reflexivity].
Qed.

Lemma before_subset p l x : In x (before p l) -> In x l.
Proof.
  induction l as [|y l IH]; cbn; [tauto|]. destruct (path_eqb (fst y) p); cbn; [tauto|].
  intros [H|H]; auto.
Qed.

(* the generated table of Axis generator methods is the one d_axis mirrors *)
Definition S_ (s : list N) : str := s.
Lemma axis_generators_are_modelled :
  map fst axis_generators =
  [ [97;110;99;101;115;116;111;114]; [97;110;99;101;115;116;111;114;95;111;114;95;115;101;108;102];
    [99;104;105;108;100]; [100;101;115;99;101;110;100;97;110;116];
    [100;101;115;99;101;110;100;97;110;116;95;111;114;95;115;101;108;102];
    [102;111;108;108;111;119;105;110;103]; [102;111;108;108;111;119;105;110;103;95;115;105;98;108;105;110;103];
    [112;97;114;101;110;116]; [112;114;101;99;101;100;105;110;103];
    [112;114;101;99;101;100;105;110;103;95;115;105;98;108;105;110;103]; [115;101;108;102] ]%N.
Proof. reflexivity. Qed.

(* Each axis of the evaluator is the reference axis of the deviated expression: same nodes, same (proximity) order. *)
Lemma axis_agrees D a a' n :
  x_axis true a = Some a' -> d_axis D a n = (r_axis D a' n, None).
Proof.
  intros Hx. destruct n as [p t].
  destruct (is_doc (p, t)) eqn:Hd.
  - (* the root node *)
    destruct p as [|i p]; [|discriminate Hd].
    destruct a; cbn in Hx; inversion Hx; subst; clear Hx; reflexivity.
  - destruct a; cbn in Hx; inversion Hx; subst; clear Hx; cbn [d_axis r_axis fst snd]; rewrite ?Hd; try reflexivity.
    + (* following *)
      rewrite filter_all_true; [reflexivity|]. intros x _. destruct (is_prefix p (fst x)); reflexivity.
    + (* preceding *)
      unfold all_nodes. cbn [before fst].
      destruct p as [|i p]; [discriminate Hd|]. cbn [path_eqb]. cbn [rev].
      rewrite filter_app. cbn [filter is_doc fst null]. cbn.
      rewrite app_nil_r. rewrite filter_all_true; [reflexivity|].
      intros x Hx. apply in_rev in Hx. apply before_subset in Hx.
      pose proof (descendants_doc_nonnil D) as F. rewrite Forall_forall in F. rewrite (F x Hx).
      destruct (is_prefix (fst x) (i :: p)); reflexivity.
Qed.

(* ---------------------------------------------------------------- node tests *)
Lemma unknown_prefix_bound m q ns : ns_get m q = Some ns -> unknown_prefix m (Some q) = false.
Proof. intro H. unfold unknown_prefix. rewrite H. reflexivity. Qed.

Lemma test_agrees m t t' c :
  x_test true m t = Some t' -> d_test m t c = Ok (r_test t' c).
Proof.
  intros Hx. destruct c as [p n]. unfold r_test, d_test, is_tagnode.
  destruct t as [pre l|pre|k|tg]; cbn in Hx.
  - (* NameMatchTest *)
    destruct pre as [q|].
    + destruct (ns_get m q) as [ns|] eqn:E; inversion Hx; subst; clear Hx.
      rewrite (unknown_prefix_bound _ _ _ E). destruct (is_doc (p, n)) eqn:Hdoc; cbn; [reflexivity|].
      destruct n as [i pay kids]; destruct pay; cbn; rewrite ?E; reflexivity.
    + inversion Hx; subst; clear Hx. cbn. destruct (is_doc (p, n)) eqn:Hdoc; cbn; [reflexivity|].
      destruct n as [i pay kids]; destruct pay; cbn; reflexivity.
  - (* AnyNameTest *)
    destruct pre as [q|].
    + destruct q as [|x q]; [discriminate|].
      destruct (ns_get m (x :: q)) as [ns|] eqn:E; inversion Hx; subst; clear Hx.
      rewrite (unknown_prefix_bound _ _ _ E). destruct (is_doc (p, n)) eqn:Hdoc; cbn; [reflexivity|].
      destruct n as [i pay kids]; destruct pay; cbn; rewrite ?E; reflexivity.
    + inversion Hx; subst; clear Hx. cbn. destruct (is_doc (p, n)) eqn:Hdoc; cbn; [reflexivity|].
      destruct n as [i pay kids]; destruct pay; cbn; reflexivity.
  - (* NodeTypeTest *)
    destruct (is_doc (p, n)) eqn:Hdoc.
    + destruct k; inversion Hx; subst; reflexivity.
    + destruct k; inversion Hx; subst; clear Hx; destruct n as [i pay kids]; destruct pay; reflexivity.
  - (* ProcessingInstructionTest *)
    inversion Hx; subst; clear Hx. destruct (is_doc (p, n)) eqn:Hdoc; [reflexivity|].
    destruct n as [i pay kids]; destruct pay; reflexivity.
Qed.

Lemma filter_test_agrees m t t' l :
  (forall c, In c l -> d_test m t c = Ok (r_test t' c)) -> filter_test m t l = Ok (filter (r_test t') l).
Proof.
  induction l as [|c l IH]; cbn; intro H; [reflexivity|].
  rewrite (H c (or_introl eq_refl)). cbn. rewrite IH by (intros; apply H; right; assumption). cbn.
  destruct (r_test t' c); reflexivity.
Qed.

(* ---------------------------------------------------------------- predicate expressions *)
Arguments py_number : simpl never.
Arguments xpath_number : simpl never.
Arguments num_compare : simpl never.

(* ---- corresponding values *)
Inductive vrel : ty -> pyval -> rval -> Prop :=
| vr_num n : vrel TNum (PInt n) (RNum n)
| vr_str s : vrel TStr (PStr s) (RStr s)
| vr_bool b : vrel TBool (PBool b) (RBool b)
| vr_attr_none : vrel TAttr PNone (RAttrs [])                       (* no such attribute: None / the empty node-set *)
| vr_attr_some v : vrel TAttr (PStr v) (RAttrs [v]).

Definition attr_list (ns l : str) (c : nd) : list str :=
  if is_tagnode c then match get_attr ns l (tag_attrs c) with Some v => [v] | None => [] end else [].
Definition res_ns (m : nsmap) (p : option str) : str :=
  match p with Some q => opt_default [] (ns_get m q) | None => [] end.
Lemma attr_list_of m p l c : attr_list (res_ns m p) l c = match attr_of m p l c with Some v => [v] | None => [] end.
Proof. unfold attr_list, attr_of, res_ns. destruct (is_tagnode c); reflexivity. Qed.

Lemma r_attr_bound m c p l : pfx_ok m p = true -> r_attr m c p l = Some (attr_list (res_ns m p) l c).
Proof.
  unfold pfx_ok, r_attr, attr_list, res_ns, tag_attrs. destruct p as [q|]; [|reflexivity].
  destruct (ns_get m q); [reflexivity|discriminate].
Qed.
Lemma unknown_prefix_ok m p : pfx_ok m p = true -> unknown_prefix m p = false.
Proof. unfold pfx_ok, unknown_prefix. destruct p as [q|]; [|reflexivity]. destruct (ns_get m q); [reflexivity|discriminate]. Qed.

(* without class (j) the attribute delb finds is the one with that expanded name *)
Lemma delb_attr_is_ref m p l c :
  is_tagnode c = true -> attr_j m p l c = false -> pfx_ok m p = true ->
  delb_attr (ipayload (snd c)) (attr_ns m p) l = get_attr (res_ns m p) l (tag_attrs c).
Proof.
  intros Ht Hj Hp. unfold delb_attr, attr_j, tag_attrs in *.
  assert (E : exists ns, (match p with Some q => ns_get m q | None => Some [] end) = Some ns /\ attr_ns m p = ns /\ res_ns m p = ns).
  { unfold attr_ns, res_ns, pfx_ok in *. destruct p as [q|]; [|eauto]. destruct (ns_get m q) as [ns|]; [eauto|discriminate]. }
  destruct E as (ns & E & -> & ->). rewrite E in Hj.
  destruct (in_scope_default (ipayload (snd c))) as [d|]; [|reflexivity].
  rewrite Ht in Hj. cbn [andb] in Hj. apply orb_false_elim in Hj as [H1 H2].
  destruct (null ns) eqn:Hn; cbn [negb andb] in *.
  - destruct ns; [|discriminate]. destruct (negb (null d)); cbn [andb]; [|reflexivity]. rewrite H2. reflexivity.
  - rewrite H1. reflexivity.
Qed.

Lemma ty_attr_inv e : ty_of e = Some TAttr -> exists p l, e = AttributeValue p l.
Proof.
  destruct e as [[s|n]|p l|p l|o l r|name args]; cbn; try discriminate; eauto.
  - destruct (ty_of l), (ty_of r); try discriminate.
    destruct o; repeat match goal with |- (if ?b then _ else _) = _ -> _ => destruct b end; discriminate.
  - repeat match goal with
           | |- (if ?b then _ else _) = _ -> _ => destruct b
           | |- match ?x with _ => _ end = _ -> _ => destruct x
           end; discriminate.
Qed.

Lemma attr_value_eval m p a c pos size :
  attr_j m p a c = false -> bound m (AttributeValue p a) = true ->
  d_expr m (AttributeValue p a) c pos size = Ok (match attr_of m p a c with Some v => PStr v | None => PNone end) /\
  r_expr m (AttributeValue p a) c pos size = Some (RAttrs (match attr_of m p a c with Some v => [v] | None => [] end)).
Proof.
  cbn [bound d_expr r_expr]. intros Hj Hb.
  rewrite (unknown_prefix_ok _ _ Hb), (r_attr_bound _ _ _ _ Hb), attr_list_of. split; [|reflexivity].
  unfold attr_of. destruct (is_tagnode c) eqn:Ht; [|reflexivity].
  rewrite (delb_attr_is_ref m p a c Ht Hj Hb). reflexivity.
Qed.

Lemma truthy_to_bool t v rv : vrel t v rv -> t <> TAttr -> truthy v = to_bool rv.
Proof. intros H Hn. inversion H; subst; try reflexivity; congruence. Qed.

Lemma orb_false_r' b : b || false = b. Proof. destruct b; reflexivity. Qed.

(* the comparison operators: BooleanOperator.evaluate computes what section 3.4 says *)
Lemma cmp_agree ta tb va vb ra rb c :
  vrel ta va ra -> vrel tb vb rb ->
  py_compare (ty_eqb ta TAttr) (ty_eqb tb TAttr) c va vb = r_compare c ra rb.
Proof.
  intros Ha Hb. inversion Ha; subst; inversion Hb; subst; clear Ha Hb;
    destruct c; unfold py_compare, r_compare, atom_compare, py_number;
    cbn [ty_eqb is_pybool is_pyint is_pynone is_rbool is_rnum orb Eval.to_number to_number truthy to_bool existsb null negb];
    rewrite ?orb_false_r'; reflexivity.
Qed.
Lemma is_attrval_ty e a : ty_of e = Some a -> is_attrval e = ty_eqb a TAttr.
Proof.
  destruct e as [[s|n]|p l|p l|o l r|name args]; cbn; try (intro H; inversion H; reflexivity).
  - destruct (ty_of l), (ty_of r); try discriminate.
    destruct o; repeat match goal with |- (if ?b then _ else _) = _ -> _ => destruct b end; intro H; inversion H; reflexivity.
  - repeat match goal with
           | |- (if ?b then _ else _) = _ -> _ => destruct b
           | |- match ?x with _ => _ end = _ -> _ => destruct x
           end; intro H; inversion H; reflexivity.
Qed.

Lemma f_lookup_position : f_lookup xpath_functions FN_position = Some {| f_nparams := 0; f_variadic := false; f_body := FCtxPosition |}.
Proof. reflexivity. Qed.
Lemma f_lookup_last : f_lookup xpath_functions FN_last = Some {| f_nparams := 0; f_variadic := false; f_body := FCtxSize |}.
Proof. reflexivity. Qed.
Lemma f_lookup_not : f_lookup xpath_functions FN_not = Some {| f_nparams := 1; f_variadic := false; f_body := FNot 0 |}.
Proof. reflexivity. Qed.
Lemma f_lookup_boolean : f_lookup xpath_functions FN_boolean = Some {| f_nparams := 1; f_variadic := false; f_body := FBool 0 |}.
Proof. reflexivity. Qed.
Lemma f_lookup_contains : f_lookup xpath_functions FN_contains = Some {| f_nparams := 2; f_variadic := false; f_body := FInS 1 0 |}.
Proof. reflexivity. Qed.
Lemma f_lookup_starts_with : f_lookup xpath_functions FN_starts_with = Some {| f_nparams := 2; f_variadic := false; f_body := FStartsWithS 0 1 |}.
Proof. reflexivity. Qed.

Ltac inv_ex :=
  repeat match goal with
         | H : exists _, _ |- _ => destruct H
         | H : _ /\ _ |- _ => destruct H
         end.

Lemma d_expr_binop m o l r c pos size :
  d_expr m (BooleanOperator o l r) c pos size =
  bind (d_expr m l c pos size) (fun a => bind (d_expr m r c pos size) (fun b => py_binop (is_attrval l) (is_attrval r) o a b)).
Proof. reflexivity. Qed.
Lemma str_is_eq a b : str_is a b = true -> a = b.
Proof. apply str_eqb_eq. Qed.

(* a function receives "" for None *)
Definition none_to_empty (v : pyval) : pyval := match v with PNone => PStr [] | _ => v end.
Lemma str_value t v rv : vrel t v rv -> to_str rv = Some (py_to_string (none_to_empty v)).
Proof. intro H. inversion H; subst; reflexivity. Qed.
Lemma d_expr_fn1 m name x c pos size v : d_expr m x c pos size = Ok v ->
  d_expr m (Function name [x]) c pos size = call_fn name [none_to_empty v] c pos size.
Proof. intro H. cbn [d_expr]. rewrite H. reflexivity. Qed.
Lemma d_expr_fn2 m name x y c pos size v w : d_expr m x c pos size = Ok v -> d_expr m y c pos size = Ok w ->
  d_expr m (Function name [x; y]) c pos size = call_fn name [none_to_empty v; none_to_empty w] c pos size.
Proof. intros H1 H2. cbn [d_expr]. rewrite H1, H2. reflexivity. Qed.

(* ---- variadic argument lists (concat) *)
Lemma go_hazard_false (h : expr -> bool) : forall l,
  (fix go (l : list expr) : bool := match l with [] => false | x :: r => h x || go r end) l = false ->
  Forall (fun x => h x = false) l.
Proof. induction l as [|x l IH]; intro H; constructor; apply orb_false_elim in H as [H1 H2]; auto. Qed.
Lemma go_bound_true (b : expr -> bool) : forall l,
  (fix go (l : list expr) : bool := match l with [] => true | x :: r => b x && go r end) l = true ->
  Forall (fun x => b x = true) l.
Proof. induction l as [|x l IH]; intro H; constructor; apply andb_prop in H as [H1 H2]; auto. Qed.
Lemma go_tys_some (t : expr -> option ty) : forall l,
  forallb (fun t => match t with Some _ => true | None => false end)
          ((fix go (l : list expr) : list (option ty) := match l with [] => [] | x :: r => t x :: go r end) l) = true ->
  Forall (fun x => exists a, t x = Some a) l.
Proof.
  induction l as [|x l IH]; intro H; constructor; cbn in H; apply andb_prop in H as [H1 H2]; auto.
  destruct (t x); [eauto|discriminate].
Qed.
Lemma go_tys_length (t : expr -> option ty) : forall l,
  length ((fix go (l : list expr) : list (option ty) := match l with [] => [] | x :: r => t x :: go r end) l) = length l.
Proof. induction l as [|x l IH]; cbn; [reflexivity|f_equal; exact IH]. Qed.
Lemma all_some_map_Some {A} (l : list A) : all_some (map Some l) = Some l.
Proof. induction l as [|x l IH]; cbn; [reflexivity|rewrite IH; reflexivity]. Qed.
Lemma go_eval_agree (f : expr -> res pyval) (g : expr -> option rval) : forall l,
  Forall (fun x => exists v rv, f x = Ok v /\ g x = Some rv /\ to_str rv = Some (py_to_string (none_to_empty v))) l ->
  exists vs rvs,
    (fix go (l : list expr) : res (list pyval) :=
       match l with [] => Ok [] | x :: r => bind (f x) (fun v => bind (go r) (fun vs => Ok (v :: vs))) end) l = Ok vs /\
    all_some ((fix go (l : list expr) : list (option rval) := match l with [] => [] | x :: r => g x :: go r end) l) = Some rvs /\
    map to_str rvs = map (fun v => Some (py_to_string (none_to_empty v))) vs /\ length rvs = length l.
Proof.
  induction l as [|x l IH]; intro H; [exists [], []; auto|]. inversion H as [|? ? (v & rv & Hf & Hg & Hs) Hl]; subst.
  destruct (IH Hl) as (vs & rvs & E1 & E2 & E3 & E4). exists (v :: vs), (rv :: rvs).
  rewrite Hf, Hg. cbn [bind all_some]. rewrite E1, E2. cbn. rewrite Hs, E3, E4. auto.
Qed.
Lemma call_concat l c pos size : call_fn FN_concat l c pos size = Ok (PStr (concat (map py_to_string l))).
Proof. reflexivity. Qed.

Lemma expr_agrees m e :
  forall t c pos size, ty_of e = Some t -> hazard m e c = false -> bound m e = true ->
  exists v rv, d_expr m e c pos size = Ok v /\ r_expr m e c pos size = Some rv /\ vrel t v rv.
Proof.
  induction e as [[s|n]|p l|p l|o l r IHl IHr|name args IH] using expr_ind'; intros t c pos size Hty Hh Hb.
  - cbn in Hty; inversion Hty; subst. exists (PStr s), (RStr s). repeat split. constructor.
  - cbn in Hty; inversion Hty; subst. exists (PInt n), (RNum n). repeat split. constructor.
  - (* AttributeValue *)
    cbn in Hty; inversion Hty; subst. cbn [hazard] in Hh.
    destruct (attr_value_eval m p l c pos size Hh Hb) as (Hd & Hr).
    eexists _, _. split; [exact Hd|]. split; [exact Hr|].
    destruct (attr_of m p l c) as [v|]; constructor.
  - (* HasAttribute *)
    cbn in Hty; inversion Hty; subst. cbn [hazard bound] in Hh, Hb. cbn [d_expr r_expr].
    rewrite (unknown_prefix_ok _ _ Hb), (r_attr_bound _ _ _ _ Hb). unfold attr_list.
    destruct (is_tagnode c) eqn:Ht.
    + rewrite (delb_attr_is_ref m p l c Ht Hh Hb).
      destruct (get_attr (res_ns m p) l (tag_attrs c)); eexists _, _; repeat split; constructor.
    + eexists _, _; repeat split; constructor.
  - (* BooleanOperator *)
    cbn [ty_of] in Hty. destruct (ty_of l) as [a|] eqn:Ha; [|discriminate]. destruct (ty_of r) as [b|] eqn:Hbt; [|discriminate].
    cbn [hazard] in Hh. apply orb_false_elim in Hh as [Hhl Hhr].
    cbn [bound] in Hb. apply andb_prop in Hb as [Hbl Hbr].
    destruct (IHl a c pos size eq_refl Hhl Hbl) as (vl & rl & Hdl & Hrl & Hvl).
    destruct (IHr b c pos size eq_refl Hhr Hbr) as (vr & rr & Hdr & Hrr & Hvr).
    rewrite d_expr_binop, Hdl, Hdr. cbn [bind].
    destruct (binop_eqb o OpAnd || binop_eqb o OpOr) eqn:Hao.
    + assert (Ho' : o = OpAnd \/ o = OpOr) by (destruct o; cbn in Hao; try discriminate; auto).
      assert (Hab : negb (ty_eqb a TAttr) && negb (ty_eqb b TAttr) = true /\ t = TBool).
      { destruct Ho' as [-> | ->]; cbn in Hty; destruct (negb (ty_eqb a TAttr) && negb (ty_eqb b TAttr)); try discriminate;
          inversion Hty; auto. }
      destruct Hab as [Hab ->]. apply andb_prop in Hab as [Na Nb].
      assert (Tl : truthy vl = to_bool rl) by (apply (truthy_to_bool a); [exact Hvl|intros ->; discriminate Na]).
      assert (Tr : truthy vr = to_bool rr) by (apply (truthy_to_bool b); [exact Hvr|intros ->; discriminate Nb]).
      destruct Ho' as [-> | ->]; cbn [r_expr py_binop]; rewrite Hrl, Hrr, Tl, Tr; eexists _, _; repeat split; constructor.
    + assert (t = TBool) by (destruct o; cbn in Hao; try discriminate Hao; cbn in Hty; inversion Hty; reflexivity). subst t.
      rewrite (is_attrval_ty l a Ha), (is_attrval_ty r b Hbt).
      destruct o; cbn in Hao; try discriminate Hao; cbn [r_expr py_binop cmp_of cmpop_of]; rewrite Hrl, Hrr;
        rewrite (cmp_agree a b vl vr rl rr _ Hvl Hvr); eexists _, _; repeat split; constructor.
  - (* Function *)
    cbn [ty_of] in Hty. cbn [hazard] in Hh. apply orb_false_elim in Hh as [Hha Hhc]. cbn [bound] in Hb.
    destruct (str_is name FN_position || str_is name FN_last) eqn:E1.
    { destruct args as [|x args]; [|cbn in Hty; destruct (ty_of x); discriminate].
      inversion Hty; subst. apply orb_prop in E1 as [E|E]; apply str_is_eq in E; subst name.
      - exists (PInt pos), (RNum pos). repeat split. constructor.
      - exists (PInt size), (RNum size). repeat split. constructor. }
    destruct (str_is name FN_not || str_is name FN_boolean) eqn:E2.
    { destruct args as [|x [|y args]]; try (cbn in Hty; repeat match type of Hty with context [ty_of ?z] => destruct (ty_of z) end; discriminate).
      destruct (ty_of x) as [tx|] eqn:Hx; [|discriminate]. inversion Hty; subst.
      inversion IH as [|? ? IHx _]; subst.
      apply orb_false_elim in Hha as [Hhx _]. apply andb_prop in Hb as [Hbx _].
      destruct (IHx tx c pos size Hx Hhx Hbx) as (v & rv & Hd & Hr & Hv).
      assert (Htb : truthy (none_to_empty v) = to_bool rv).
      { inversion Hv; subst; try reflexivity. cbn.
        apply ty_attr_inv in Hx as (q & k & ->). cbn in Hhc.
        cbn [hazard] in Hhx. destruct (attr_value_eval m q k c pos size Hhx Hbx) as (Hd' & _).
        rewrite Hd' in Hd. unfold attr_empty in Hhc. destruct (attr_of m q k c) as [w|]; [|discriminate Hd].
        inversion Hd; subst. rewrite Hhc. reflexivity. }
      apply orb_prop in E2 as [E|E]; apply str_is_eq in E; subst name.
      - exists (PBool (negb (truthy (none_to_empty v)))), (RBool (negb (to_bool rv))).
        split; [rewrite (d_expr_fn1 _ _ _ _ _ _ _ Hd); reflexivity|]. split; [cbn [r_expr]; rewrite Hr; reflexivity|].
        rewrite Htb. constructor.
      - exists (PBool (truthy (none_to_empty v))), (RBool (to_bool rv)).
        split; [rewrite (d_expr_fn1 _ _ _ _ _ _ _ Hd); reflexivity|]. split; [cbn [r_expr]; rewrite Hr; reflexivity|].
        rewrite Htb. constructor. }
    destruct (str_is name FN_contains || str_is name FN_starts_with) eqn:E3;
      [|destruct (str_is name FN_concat) eqn:E4; [|discriminate]; apply str_is_eq in E4; subst name; clear E1 E2 E3;
        match type of Hty with context [forallb ?F ?T] =>
          destruct (forallb F T) eqn:Ety; [|destruct T as [|? [|? ?]]; discriminate Hty] end;
        assert (Hlen : 2 <= length args);
        [ match type of Ety with forallb _ ?T = _ => assert (HL : length T = length args) by apply go_tys_length;
            destruct T as [|? [|? ?]]; try discriminate Hty; cbn in HL; lia end
        | assert (t = TStr) by (match type of Hty with match ?T with _ => _ end = _ => destruct T as [|? [|? ?]] end; inversion Hty; reflexivity);
          subst t;
          pose proof (go_tys_some _ _ Ety) as Ft; pose proof (go_hazard_false _ _ Hha) as Fh; pose proof (go_bound_true _ _ Hb) as Fb;
          assert (Fall : Forall (fun x => exists v rv, d_expr m x c pos size = Ok v /\ r_expr m x c pos size = Some rv /\
                                                     to_str rv = Some (py_to_string (none_to_empty v))) args);
          [ rewrite Forall_forall in *; intros x Hx; destruct (Ft x Hx) as (a & Ha);
            destruct (IH x Hx a c pos size Ha (Fh x Hx) (Fb x Hx)) as (v & rv & Hd & Hr & Hv);
            exists v, rv; repeat split; auto; eapply str_value; eauto
          | destruct (go_eval_agree (fun x => d_expr m x c pos size) (fun x => r_expr m x c pos size) args Fall)
              as (vs & rvs & E1 & E2 & E3 & E4); cbn beta in E1, E2;
            exists (PStr (concat (map (fun v => py_to_string (none_to_empty v)) vs))), (RStr (concat (map (fun v => py_to_string (none_to_empty v)) vs)));
            split; [cbn [d_expr]; rewrite E1; cbn [bind]; rewrite call_concat, map_map; reflexivity|];
            split; [|apply vr_str];
            cbn [r_expr]; rewrite E2; destruct rvs as [|r1 [|r2 rvs]]; [cbn in E4; lia|cbn in E4; lia|];
            unfold r_call; cbn [str_is]; rewrite E3, <- map_map, all_some_map_Some; reflexivity ] ] ].
    destruct args as [|x [|y [|z args]]]; try (cbn in Hty; repeat match type of Hty with context [ty_of ?z] => destruct (ty_of z) end; discriminate).
    destruct (ty_of x) as [tx|] eqn:Hx; [|discriminate]. destruct (ty_of y) as [ty'|] eqn:Hy; [|discriminate].
    inversion Hty; subst.
    inversion IH as [|? ? IHx IH']; subst. inversion IH' as [|? ? IHy _]; subst.
    apply orb_false_elim in Hha as [Hhx Hha]. apply orb_false_elim in Hha as [Hhy _].
    apply andb_prop in Hb as [Hbx Hb]. apply andb_prop in Hb as [Hby _].
    destruct (IHx tx c pos size Hx Hhx Hbx) as (vx & rx & Hdx & Hrx & Hvx).
    destruct (IHy ty' c pos size Hy Hhy Hby) as (vy & ry & Hdy & Hry & Hvy).
    pose proof (str_value _ _ _ Hvx) as Tx. pose proof (str_value _ _ _ Hvy) as Ty.
    apply orb_prop in E3 as [E|E]; apply str_is_eq in E; subst name.
    + eexists (PBool _), (RBool _).
      split; [rewrite (d_expr_fn2 _ _ _ _ _ _ _ _ _ Hdx Hdy); reflexivity|].
      split; [cbn [r_expr]; rewrite Hrx, Hry; cbn; rewrite Tx, Ty; reflexivity|]. constructor.
    + eexists (PBool _), (RBool _).
      split; [rewrite (d_expr_fn2 _ _ _ _ _ _ _ _ _ Hdx Hdy); reflexivity|].
      split; [cbn [r_expr]; rewrite Hrx, Hry; cbn; rewrite Tx, Ty; reflexivity|]. constructor.
Qed.

(* ---------------------------------------------------------------- predicate filtering *)
Lemma filter_pred_agrees m p size : pred_ok m p = true ->
  forall cs pos, (forall c, In c cs -> hazard m p c = false) ->
  exists l, filter_pred m p size pos cs = Ok l /\ r_filter m p size pos cs = Some l /\ incl l cs.
Proof.
  unfold pred_ok. destruct (ty_of p) as [tt|] eqn:Hty; [|discriminate].
  intro Hb0. assert (Htt : (tt = TBool \/ tt = TNum \/ tt = TStr) /\ bound m p = true) by (destruct tt; try discriminate Hb0; auto).
  destruct Htt as [Htt Hb]. clear Hb0.
  induction cs as [|c cs IH]; intros pos Hh; cbn.
  - exists []. repeat split. apply incl_nil_l.
  - destruct (expr_agrees m p tt c pos size Hty (Hh c (or_introl eq_refl)) Hb) as (v & rv & Hd & Hr & Hv).
    destruct (IH (pos + 1)%N (fun c' H => Hh c' (or_intror H))) as (l & Hl & Hrl & Hi).
    rewrite Hd, Hr, Hl, Hrl. cbn [bind].
    assert (Hk : keep_py v pos = keeps rv pos).
    { destruct Htt as [-> | [-> | ->]]; inversion Hv; subst; reflexivity. }
    rewrite Hk. destruct (keeps rv pos); eexists; repeat split.
    + apply incl_cons; [left; reflexivity|]. apply incl_tl. exact Hi.
    + apply incl_tl. exact Hi.
Qed.

Lemma apply_preds_agrees m ps : forallb (pred_ok m) ps = true ->
  forall cs, (forall c, In c cs -> forallb (fun p => negb (hazard m p c)) ps = true) ->
  exists l, apply_preds m ps cs = Ok l /\ r_preds m ps cs = Some l.
Proof.
  induction ps as [|p ps IH]; cbn; intros Hok cs Hh; [eauto|].
  apply andb_prop in Hok as [Hp Hps].
  destruct (filter_pred_agrees m p (N.of_nat (length cs)) Hp cs 1%N) as (l & Hl & Hrl & Hi).
  { intros c Hc. specialize (Hh c Hc). apply andb_prop in Hh as [H _]. apply negb_true_iff in H. exact H. }
  rewrite Hl, Hrl. cbn. apply IH; [exact Hps|].
  intros c Hc. specialize (Hh c (Hi c Hc)). apply andb_prop in Hh as [_ H]. exact H.
Qed.

(* ---------------------------------------------------------------- one step on one context node *)
Lemma step1_agrees D m s rs n :
  step_ok D m s n = true -> x_step true m s = Some rs ->
  exists l, d_step1 D m s n = Ok l /\ r_step1 D m rs n = Some l.
Proof.
  destruct s as [a t ps]. unfold step_ok, x_step. destruct (x_axis true a) as [a'|] eqn:Ha; [|discriminate].
  destruct (x_test true m t) as [t'|] eqn:Ht; [|discriminate]. intros Hok Hrs. inversion Hrs; subst; clear Hrs.
  apply andb_prop in Hok as [Hpo Hhz].
  unfold d_step1, r_step1. rewrite (axis_agrees D a a' n Ha).
  rewrite (filter_test_agrees m t t') by (intros c _; apply test_agrees; exact Ht).
  cbn [bind]. apply apply_preds_agrees; [exact Hpo|]. rewrite forallb_forall in Hhz. exact Hhz.
Qed.

(* ---------------------------------------------------------------- a step over a node-set; paths; unions *)
Lemma collect_agrees D m s rs ns :
  (forall n, In n ns -> exists l, d_step1 D m s n = Ok l /\ r_step1 D m rs n = Some l) ->
  exists c, collect D m s ns = (c, None) /\ r_union_map (r_step1 D m rs) ns = Some c.
Proof.
  induction ns as [|n ns IH]; cbn; intro H; [eauto|].
  destruct (H n (or_introl eq_refl)) as (l & Hd & Hr). destruct (IH (fun n' Hn => H n' (or_intror Hn))) as (c & Hc & Hu).
  rewrite Hd, Hr, Hc, Hu. eauto.
Qed.

Lemma steps_agree D m ss : forall ns, steps_ok D m ss ns = true ->
  exists rss out, all_some (map (x_step true m) ss) = Some rss /\
    fold_left (fun acc s => d_step D m s acc) ss (ns, None) = (out, None) /\
    fold_left (fun acc s => r_step D m s acc) rss (Some ns) = Some out.
Proof.
  induction ss as [|s ss IH]; cbn; intros ns Hok; [exists [], ns; auto|].
  apply andb_prop in Hok as [Hall Hrest]. destruct (x_step true m s) as [rs|] eqn:Hx; [|discriminate].
  destruct (collect_agrees D m s rs ns) as (c & Hc & Hu).
  { intros n Hn. rewrite forallb_forall in Hall. apply step1_agrees; auto. }
  rewrite Hu in Hrest. cbn in Hrest.
  destruct (IH (dedup c) Hrest) as (rss & out & Hrss & Hd & Hr).
  assert (E1 : d_step D m s (ns, None) = (dedup c, None)) by (unfold d_step; cbn [fst snd]; rewrite Hc; reflexivity).
  assert (E2 : r_step D m rs (Some ns) = Some (dedup c)) by (unfold r_step; rewrite Hu; reflexivity).
  exists (rs :: rss), out. rewrite Hrss. split; [reflexivity|].
  cbn [fold_left]. rewrite E1, E2. auto.
Qed.

Lemma path_agrees D m p ctx : path_ok D m p ctx = true ->
  exists rp out, x_path true m p = Some rp /\ d_path D m p ctx = (out, None) /\ r_path D m rp ctx = Some out.
Proof.
  destruct p as [ab ss]. cbn. intro Hok. destruct (steps_agree D m ss _ Hok) as (rss & out & Hrss & Hd & Hr).
  exists (RPath ab rss), out. rewrite Hrss. cbn. auto.
Qed.

Lemma paths_agree D m e ctx : forallb (fun p => path_ok D m p ctx) e = true ->
  exists re out, xlate true m e = Some re /\ d_paths D m e ctx = (out, None) /\ r_paths D m re ctx = Some out.
Proof.
  unfold xlate. induction e as [|p e IH]; cbn; intro H; [exists [], []; auto|].
  apply andb_prop in H as [Hp He]. destruct (path_agrees D m p ctx Hp) as (rp & o1 & Hx & Hd & Hr).
  destruct (IH He) as (re & o2 & Hxe & Hde & Hre).
  exists (rp :: re), (o1 ++ o2). rewrite Hx, Hxe, Hd, Hde. cbn. rewrite Hr, Hre. auto.
Qed.

(* skipping the root node commutes with de-duplication *)
Lemma dedup_aux_filter (f : nd -> bool) (fp : npath -> bool) : (forall x, f x = fp (fst x)) ->
  forall l seen seen', (forall p, fp p = true -> path_mem p seen = path_mem p seen') ->
  dedup_aux seen' (filter f l) = filter f (dedup_aux seen l).
Proof.
  intros Hf. induction l as [|x l IH]; intros seen seen' H; [reflexivity|]. cbn [filter dedup_aux].
  destruct (f x) eqn:Fx.
  - cbn [dedup_aux]. rewrite <- (H (fst x)) by (rewrite <- Hf; exact Fx).
    destruct (path_mem (fst x) seen); [apply IH; exact H|].
    cbn [filter]. rewrite Fx. f_equal. apply IH. intros p Hp. cbn. rewrite (H p Hp). reflexivity.
  - destruct (path_mem (fst x) seen); [apply IH; exact H|]. cbn [filter]. rewrite Fx. apply IH.
    intros p Hp. cbn. destruct (path_eqb p (fst x)) eqn:E; [|apply H; exact Hp].
    apply path_eqb_eq in E. subst p. rewrite <- Hf, Fx in Hp. discriminate.
Qed.
Lemma dedup_filter_nondoc l :
  dedup (filter (fun n => negb (is_doc n)) l) = filter (fun n => negb (is_doc n)) (dedup l).
Proof. apply (dedup_aux_filter _ (fun p => negb (null p))); [reflexivity|auto]. Qed.

(* The main statement: on in_subset the evaluator returns without a fault exactly the node list the reference
   semantics assigns to the deviated expression, minus the root node (which no result can contain), and no node twice. *)
Lemma eval_is_ref D m e ctx : in_subset D m e ctx = true ->
  exists re r, deviate m e = Some re /\ ref_eval D m re ctx = Some r /\
               eval D m e ctx = Ok (filter (fun n => negb (is_doc n)) r) /\ NoDup (map fst r).
Proof.
  unfold in_subset. intro H. apply andb_prop in H as [Hp _].
  destruct (paths_agree D m e ctx Hp) as (re & out & Hx & Hd & Hrp).
  exists re, (dedup out). split; [exact Hx|]. unfold eval, ref_eval. rewrite Hd, Hrp. cbn [option_map].
  split; [reflexivity|]. split; [rewrite dedup_filter_nondoc; reflexivity|apply dedup_NoDup_fst].
Qed.
