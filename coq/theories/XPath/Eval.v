(* Mirror of the evaluation methods of /repo/_delb/xpath/ast.py (+ functions.py through the generated
   table Gen/GenXEval.v, + evaluate() of xpath/__init__.py), over the trees of Nav.v.  Definitions only.

   Evaluation in the code is a pipeline of generators: every stage yields "a prefix of results, then
   possibly a fault", consumed depth first, so the *first* fault is what the caller sees.  A stream is
   therefore (results, optional fault).  `LocationStep._evaluate` is eager per context node (it builds
   the candidate list), so there a fault discards the node's results.

   Faults: XPathEvaluationError (unknown prefix; documented -> Rejected) and every other exception
   class (-> Crash).  The query runs under `@altered_default_filters()`, i.e. with no ambient filter:
   `NodeBase.xpath` resets the filters, which is why no filter parameter occurs here. *)
From Delb.Base Require Import PyStr.
From Delb.Tree Require Import ATree ITree.
From Delb.XPath Require Import Ast Nav FnLang Num.
From Delb.Gen Require Import GenXEval.

Inductive exn := XPathEvaluationError | AttributeError | AssertionError | TypeError | NotImplementedError | OtherError
  | ValueError | AmbiguousTreeError | InvalidOperation.     (* the documented refusals of fetch_or_create_by_xpath (C15) *)
Inductive fault := FRejected (e : exn) | FCrash (e : exn).
Inductive res (A : Type) := Ok (a : A) | Fault (f : fault).
Arguments Ok {A} a.
Arguments Fault {A} f.
Definition Rejected {A} (e : exn) : res A := Fault (FRejected e).
Definition Crash {A} (e : exn) : res A := Fault (FCrash e).
Definition bind {A B} (r : res A) (f : A -> res B) : res B :=
  match r with Ok a => f a | Fault x => Fault x end.

Definition stream := (list nd * option fault)%type.

(* ---------------------------------------------------------------- axes (class Axis) *)
(* On the _DocumentNode (the XPath root node) Axis.evaluate runs the generator only for child, descendant,
   descendant_or_self and self; ancestor_or_self yields the node itself; every other axis yields nothing: the root
   node has neither ancestors nor siblings nor following / preceding nodes (fix c9f24a8). *)
Definition d_axis (D : itree) (a : axis) (n : nd) : stream :=
  match a with
  | AxSelf => ([n], None)
  | AxChild => (children n, None)
  | AxDescendant => (descendants n, None)
  | AxDescendantOrSelf => (n :: descendants n, None)
  | AxOther _ => ([], Some (FCrash TypeError))
  | _ =>
      if is_doc n then (match a with AxAncestorOrSelf => [n] | _ => [] end, None)
      else match a with
           | AxAncestorOrSelf => (n :: ancestors D n, None)
           | AxAncestor => (ancestors D n, None)              (* iterate_ancestors, then _DocumentNode *)
           | AxParent => (parent D n, None)                   (* `parent is not None`: the parent, else _DocumentNode *)
           | AxFollowingSibling => (following_siblings D n, None)
           | AxPrecedingSibling => (preceding_siblings D n, None)
           | AxFollowing => (after (fst n) (all_nodes D), None)          (* _iterate_following: every later node *)
           | AxPreceding => (rev (before (fst n) (descendants ([], D))), None)   (* up to and including the root *)
           | _ => ([], None)
           end
  end.

(* ---------------------------------------------------------------- node tests *)
Definition unknown_prefix (m : nsmap) (p : option str) : bool :=       (* ensure_prefix *)
  match p with Some q => match ns_get m q with Some _ => false | None => true end | None => false end.

Definition kind_matches (k : node_kind) (p : payload) : bool :=
  match k, p with
  | KTagNode, PTag _ _ _ | KTextNode, PText _ | KCommentNode, PComment _ | KProcessingInstructionNode, PPI _ _ => true
  | _, _ => false
  end.

Definition d_test (m : nsmap) (t : node_test) (c : nd) : res bool :=
  match t with
  | AnyNameTest p =>
      if unknown_prefix m p then Rejected XPathEvaluationError
      else if negb (is_tagnode c) then Ok false
      else match p, ipayload (snd c) with
           | Some (x :: q), PTag ns _ _ => Ok (str_eqb ns (opt_default [] (ns_get m (x :: q))))
           | _, _ => Ok true
           end
  | NameMatchTest p l =>
      if unknown_prefix m p then Rejected XPathEvaluationError
      else if negb (is_tagnode c) then Ok false
      else match ipayload (snd c) with
           | PTag ns name _ =>
               (* no prefix: the declared default namespace if there is one, else no namespace *)
               let want := match p with None => opt_default [] (ns_get m []) | Some q => opt_default [] (ns_get m q) end in
               Ok (str_eqb ns want && str_eqb name l)
           | _ => Ok false
           end
  | NodeTypeTest k =>                           (* the root node passes node() like tag nodes, but no other type test *)
      Ok (if is_doc c then match k with KTagNode => true | _ => false end else kind_matches k (ipayload (snd c)))
  | ProcessingInstructionTest target =>
      if is_doc c then Ok false
      else match ipayload (snd c) with PPI tg _ => Ok (str_eqb tg target) | _ => Ok false end
  end.

(* the list comprehension over the axis generator: test faults come in generation order, before a later axis fault *)
Fixpoint filter_test (m : nsmap) (t : node_test) (l : list nd) : res (list nd) :=
  match l with
  | [] => Ok []
  | c :: r => bind (d_test m t c) (fun b => bind (filter_test m t r) (fun r' => Ok (if b then c :: r' else r')))
  end.

(* ---------------------------------------------------------------- predicate expressions: Python values *)
Inductive pyval := PStr (s : str) | PInt (n : N) | PBool (b : bool) | PNone.

Definition py_int (v : pyval) : option N :=
  match v with PInt n => Some n | PBool b => Some (if b then 1%N else 0%N) | _ => None end.
Definition truthy (v : pyval) : bool :=
  match v with PStr s => negb (null s) | PInt n => negb (N.eqb n 0) | PBool b => b | PNone => false end.
(* ast._to_number: a str that spells an XPath 1.0 number (XML whitespace, optional minus, ASCII digits with an optional
   fraction, or a fraction alone; the pattern is pinned by translate/gen_xeval.py since fix 2f48f15) -> float(str), any
   other str -> NaN; bool / int -> float *)
Definition py_number (s : str) : xnum := xpath_number s.
Definition to_number (v : pyval) : xnum :=
  match v with
  | PStr s => py_number s
  | PInt n => xnum_of_N n
  | PBool b => xnum_of_bool b
  | PNone => NaN                                   (* not reached: None is handled before *)
  end.
Definition is_pybool (v : pyval) : bool := match v with PBool _ => true | _ => false end.
Definition is_pyint (v : pyval) : bool := match v with PInt _ => true | _ => false end.
Definition cmp_of (o : binop) : option cmpop :=
  match o with OpEq => Some CEq | OpNe => Some CNe | OpLt => Some CLt | OpLe => Some CLe | OpGt => Some CGt | OpGe => Some CGe
             | _ => None end.
Definition is_pynone (v : pyval) : bool := match v with PNone => true | _ => false end.
(* BooleanOperator.evaluate for the six comparison operators (fixes 6d4104b, 55dbc63); la / ra: the operand's AST node
   is an AttributeValue *)
Definition py_compare (la ra : bool) (c : cmpop) (a b : pyval) : bool :=
  if is_pybool a || is_pybool b then
    (* against a boolean an attribute is a node set that is true if the attribute exists *)
    let a' := if la then PBool (negb (is_pynone a)) else a in
    let b' := if ra then PBool (negb (is_pynone b)) else b in
    match c with
    | CEq => Bool.eqb (truthy a') (truthy b')
    | CNe => negb (Bool.eqb (truthy a') (truthy b'))
    | _ => num_compare c (to_number a') (to_number b')
    end
  else
  match a, b with
  | PNone, _ | _, PNone => false                                 (* a missing attribute: an empty node set *)
  | _, _ =>
      match c with
      | CEq | CNe =>
          if is_pyint a || is_pyint b then num_compare c (to_number a) (to_number b)
          else match a, b with
               | PStr x, PStr y => (match c with CEq => str_eqb x y | _ => negb (str_eqb x y) end)
               | _, _ => false
               end
      | _ => num_compare c (to_number a) (to_number b)
      end
  end.
Definition py_binop (la ra : bool) (o : binop) (a b : pyval) : res pyval :=
  match o with
  (* and / or: both operands are evaluated (no short circuit), converted with bool(), then combined *)
  | OpAnd => Ok (PBool (truthy a && truthy b))
  | OpOr => Ok (PBool (truthy a || truthy b))
  | _ => match cmp_of o with Some c => Ok (PBool (py_compare la ra c a b)) | None => Crash OtherError end
  end.

(* node.attributes.get((ns, local)): TagAttributes._etree_key sends a namespace equal to the element's in-scope
   default namespace to the plain key *)
Definition delb_attr (p : payload) (ns local : str) : option str :=
  let attrs := payload_attrs p in
  let has n := match get_attr n local attrs with Some _ => true | None => false end in
  let key :=
    match in_scope_default p with
    | Some d =>
        if negb (null ns) then (if negb (str_eqb d ns) || has ns then ns else [])      (* ... unless {ns}local is in the store (bde0777) *)
        (* no namespace and the default namespace address the same attribute (badd57c) *)
        else if negb (null d) && negb (has []) && has d then d else []
    | None => ns
    end in
  get_attr key local attrs.
Definition attr_ns (m : nsmap) (p : option str) : str :=           (* context.namespaces.get(prefix, "") *)
  match p with Some q => opt_default [] (ns_get m q) | None => [] end.

Fixpoint all_strs (l : list pyval) : option (list str) :=
  match l with
  | [] => Some []
  | PStr s :: r => option_map (cons s) (all_strs r)
  | _ :: _ => None
  end.
Definition first_text_child (c : nd) : str :=
  match filter (fun k => match ipayload (snd k) with PText _ => true | _ => false end) (children c) with
  | (_, INode _ (PText s) _) :: _ => s
  | _ => []
  end.

(* calling a registered function with already evaluated arguments *)
(* functions._to_string on the values that reach a function: str, bool, int ("" stands for None already) *)
Definition py_to_string (v : pyval) : str :=
  match v with PStr s => s | PBool b => if b then STR_true else STR_false | PInt n => N_to_dec n | PNone => [] end.
Definition call_body (b : fbody) (args : list pyval) (c : nd) (pos size : N) : res pyval :=
  let arg i := nth i args PNone in
  match b with
  | FJoinAll => match all_strs args with Some ss => Ok (PStr (concat ss)) | None => Crash TypeError end
  | FIn needle hay =>
      match arg hay, arg needle with
      | PStr h, PStr n => Ok (PBool (py_contains h n))
      | _, _ => Crash TypeError
      end
  | FBool i => Ok (PBool (truthy (arg i)))
  | FNot i => Ok (PBool (negb (truthy (arg i))))
  | FCtxSize => Ok (PInt size)
  | FCtxPosition => Ok (PInt pos)
  | FStartsWith s p =>
      match arg s, arg p with
      | PStr x, PStr y => Ok (PBool (py_startswith x y))
      | PStr _, _ => Crash TypeError
      | _, _ => Crash AttributeError
      end
  | FFirstTextChild => Ok (PStr (first_text_child c))
  | FJoinAllS => Ok (PStr (concat (map py_to_string args)))
  | FInS needle hay => Ok (PBool (py_contains (py_to_string (arg hay)) (py_to_string (arg needle))))
  | FStartsWithS s p => Ok (PBool (py_startswith (py_to_string (arg s)) (py_to_string (arg p))))
  end.
Definition call_fn (name : str) (args : list pyval) (c : nd) (pos size : N) : res pyval :=
  match f_lookup xpath_functions name with
  | None => Crash OtherError
  | Some d =>
      if (if f_variadic d then Nat.leb (f_nparams d) (length args) else Nat.eqb (f_nparams d) (length args))
      then call_body (f_body d) args c pos size
      else Crash TypeError
  end.

Definition is_attrval (e : expr) : bool := match e with AttributeValue _ _ => true | _ => false end.
Fixpoint d_expr (m : nsmap) (e : expr) (c : nd) (pos size : N) {struct e} : res pyval :=
  match e with
  | AnyValue (VStr s) => Ok (PStr s)
  | AnyValue (VNum n) => Ok (PInt n)
  | AttributeValue p l =>
      if unknown_prefix m p then Rejected XPathEvaluationError
      (* None for a node that is not a tag node and for a missing attribute (fix 6d4104b) *)
      else if is_tagnode c
           then Ok (match delb_attr (ipayload (snd c)) (attr_ns m p) l with Some v => PStr v | None => PNone end)
           else Ok PNone
  | HasAttribute p l =>
      if unknown_prefix m p then Rejected XPathEvaluationError
      else if is_tagnode c
           then Ok (PBool (match delb_attr (ipayload (snd c)) (attr_ns m p) l with Some _ => true | None => false end))
           else Ok (PBool false)
  | BooleanOperator o l r =>
      bind (d_expr m l c pos size) (fun a => bind (d_expr m r c pos size) (fun b => py_binop (is_attrval l) (is_attrval r) o a b))
  | Function name args =>
      bind ((fix go (l : list expr) : res (list pyval) :=
               match l with
               | [] => Ok []
               | x :: r => bind (d_expr m x c pos size) (fun v => bind (go r) (fun vs => Ok (v :: vs)))
               end) args)
           (* a function receives "" for a None argument *)
           (fun vs => call_fn name (map (fun v => match v with PNone => PStr [] | _ => v end) vs) c pos size)
  end.

(* ---------------------------------------------------------------- LocationStep._evaluate *)
(* a predicate result that is a number (int, not bool) selects the candidate at that position (fix 6531d56) *)
Definition keep_py (v : pyval) (pos : N) : bool := match v with PInt n => N.eqb n pos | _ => truthy v end.
Fixpoint filter_pred (m : nsmap) (p : expr) (size pos : N) (cs : list nd) : res (list nd) :=
  match cs with
  | [] => Ok []
  | c :: r => bind (d_expr m p c pos size)
                (fun v => bind (filter_pred m p size (pos + 1) r) (fun r' => Ok (if keep_py v pos then c :: r' else r')))
  end.
Fixpoint apply_preds (m : nsmap) (ps : list expr) (cs : list nd) : res (list nd) :=
  match ps with
  | [] => Ok cs
  | p :: r => bind (filter_pred m p (N.of_nat (length cs)) 1 cs) (apply_preds m r)
  end.
Definition d_step1 (D : itree) (m : nsmap) (s : step) (n : nd) : res (list nd) :=
  let '(LocationStep a t ps) := s in
  let '(gen, afault) := d_axis D a n in
  bind (filter_test m t gen)
       (fun cands => match afault with Some f => Fault f | None => apply_preds m ps cands end).

(* ---------------------------------------------------------------- LocationStep.evaluate / LocationPath.evaluate *)
(* results of the nodes of the incoming prefix in order, up to the first faulting node *)
Fixpoint collect (D : itree) (m : nsmap) (s : step) (ns : list nd) : stream :=
  match ns with
  | [] => ([], None)
  | n :: r => match d_step1 D m s n with
              | Ok l => let '(l', f) := collect D m s r in (l ++ l', f)
              | Fault f => ([], Some f)
              end
  end.
Definition d_step (D : itree) (m : nsmap) (s : step) (inp : stream) : stream :=
  let '(c, f) := collect D m s (fst inp) in
  (dedup c, match f with Some x => Some x | None => snd inp end).      (* yielded_nodes: by identity, per step *)

Definition d_path (D : itree) (m : nsmap) (p : path) (ctx : nd) : stream :=
  let '(LocationPath absolute steps) := p in
  fold_left (fun acc s => d_step D m s acc) steps ([if absolute then ([], D) else ctx], None).

(* XPathExpression.evaluate: the paths one after the other *)
Fixpoint d_paths (D : itree) (m : nsmap) (ps : list path) (ctx : nd) : stream :=
  match ps with
  | [] => ([], None)
  | p :: r => match d_path D m p ctx with
              | (l, Some f) => (l, Some f)
              | (l, None) => let '(l', f) := d_paths D m r ctx in (l ++ l', f)
              end
  end.
Definition eval_stream := d_paths.
(* the root node can't be represented in a result: it is skipped; every other node once *)
Definition eval (D : itree) (m : nsmap) (e : xpath_expr) (ctx : nd) : res (list nd) :=
  let '(l, f) := d_paths D m e ctx in
  match f with Some x => Fault x | None => Ok (dedup (filter (fun n => negb (is_doc n)) l)) end.

(* ---------------------------------------------------------------- QueryResults.in_document_order *)
(* utils._sort_nodes_in_document_order: TagNodes only (NotImplementedError otherwise); every node is added to a
   _NodesSorter -- a trie keyed by the tuple of child indexes on the way from the root -- and the trie is emitted: its own
   node, then the sub-tries by ascending key.  (The same trie is modelled over the concrete tree in Conc/CNav.v for C05;
   here it holds node-set members.  The defaultdict is kept ordered by key; the code sorts the keys when it emits.  The
   key tuple is the member's position: the indexes the code computes count the siblings the ambient filter lets
   through, which orders the same way.) *)
Inductive strie := STrie (node : option nd) (items : list (nat * strie)).
Fixpoint strie_add (path : npath) (n : nd) (t : strie) {struct path} : strie :=
  match path, t with
  | [], STrie _ items => STrie (Some n) items
  | k :: rest, STrie x items =>
      STrie x ((fix go (l : list (nat * strie)) : list (nat * strie) :=
                  match l with
                  | [] => [(k, strie_add rest n (STrie None []))]
                  | (k', sub) :: r =>
                      if Nat.eqb k' k then (k', strie_add rest n sub) :: r
                      else if Nat.ltb k k' then (k, strie_add rest n (STrie None [])) :: (k', sub) :: r
                      else (k', sub) :: go r
                  end) items)
  end.
Fixpoint strie_emit (t : strie) : list nd :=
  match t with
  | STrie x items =>
      (match x with Some n => [n] | None => [] end) ++ flat_map (fun kv => strie_emit (snd kv)) items
  end.
Definition in_document_order (l : list nd) : res (list nd) :=
  if forallb is_tagnode l
  then Ok (strie_emit (fold_left (fun t x => strie_add (fst x) x t) l (STrie None [])))
  else Crash NotImplementedError.

(* what the trie amounts to (OrderFacts.v): insertion into a list sorted by position, a later member with the same
   position replacing the earlier one *)
Fixpoint insert_sorted (x : nd) (l : list nd) : list nd :=
  match l with
  | [] => [x]
  | y :: r => if path_ltb (fst x) (fst y) then x :: l
              else if path_eqb (fst x) (fst y) then x :: r
              else y :: insert_sorted x r
  end.
