(* Concrete inputs for the examples and `_refuted` statements of C06 (the witnesses of findings.d/C06.json, repaired
   and open ones) and a non-trivial input inside in_subset.  Generated from the real parser's ASTs at /repo HEAD. *)
From Delb.Base Require Import PyStr.
From Delb.Tree Require Import ATree ITree.
From Delb.XPath Require Import Ast Nav Eval Ref Subset Run.

(* (a) a[last()]  on  <r><a/><a/></r> *)
Definition wa_tree : itree := (INode 1%N (PTag [] [114]%N []) [(INode 2%N (PTag [] [97]%N []) []); (INode 3%N (PTag [] [97]%N []) [])]).
Definition wa_ns : nsmap := [([], [])].
Definition wa_expr : xpath_expr := [(LocationPath false [(LocationStep AxChild (NameMatchTest None [97]%N) [(Function [108;97;115;116]%N [])])])].
Definition wa_ctx : nd := nd_at (docnode wa_tree) [0%nat].
(* implementation: ('ok', [(0, 1)])   XPath 1.0: [[0, 1]] *)
(* (b) a[2 and position()=last()]  on  <r><a/><a/></r> *)
Definition wb_tree : itree := (INode 1%N (PTag [] [114]%N []) [(INode 2%N (PTag [] [97]%N []) []); (INode 3%N (PTag [] [97]%N []) [])]).
Definition wb_ns : nsmap := [([], [])].
Definition wb_expr : xpath_expr := [(LocationPath false [(LocationStep AxChild (NameMatchTest None [97]%N) [(BooleanOperator OpAnd (AnyValue (VNum 2%N)) (BooleanOperator OpEq (Function [112;111;115;105;116;105;111;110]%N []) (Function [108;97;115;116]%N [])))])])].
Definition wb_ctx : nd := nd_at (docnode wb_tree) [0%nat].
(* implementation: ('ok', [(0, 1)])   XPath 1.0: [[0, 1]] *)
(* (c) a[not(@k)]  on  <r><a k=""/></r> *)
Definition wc_tree : itree := (INode 1%N (PTag [] [114]%N []) [(INode 2%N (PTag [] [97]%N [([], [107]%N, [])]) [])]).
Definition wc_ns : nsmap := [([], [])].
Definition wc_expr : xpath_expr := [(LocationPath false [(LocationStep AxChild (NameMatchTest None [97]%N) [(Function [110;111;116]%N [(HasAttribute None [107]%N)])])])].
Definition wc_ctx : nd := nd_at (docnode wc_tree) [0%nat].
(* implementation: ('ok', [])   XPath 1.0: [] *)
(* (d) a[@k!='1']  on  <r><a/></r> *)
Definition wd_tree : itree := (INode 1%N (PTag [] [114]%N []) [(INode 2%N (PTag [] [97]%N []) [])]).
Definition wd_ns : nsmap := [([], [])].
Definition wd_expr : xpath_expr := [(LocationPath false [(LocationStep AxChild (NameMatchTest None [97]%N) [(BooleanOperator OpNe (AttributeValue None [107]%N) (AnyValue (VStr [49]%N)))])])].
Definition wd_ctx : nd := nd_at (docnode wd_tree) [0%nat].
(* implementation: ('ok', [])   XPath 1.0: [] *)
(* (e) a[@k='']  on  <r><a/></r> *)
Definition we_tree : itree := (INode 1%N (PTag [] [114]%N []) [(INode 2%N (PTag [] [97]%N []) [])]).
Definition we_ns : nsmap := [([], [])].
Definition we_expr : xpath_expr := [(LocationPath false [(LocationStep AxChild (NameMatchTest None [97]%N) [(BooleanOperator OpEq (AttributeValue None [107]%N) (AnyValue (VStr [])))])])].
Definition we_ctx : nd := nd_at (docnode we_tree) [0%nat].
(* implementation: ('ok', [])   XPath 1.0: [] *)
(* (f) a[@k<2]  on  <r><a k="1"/></r> *)
Definition wf_tree : itree := (INode 1%N (PTag [] [114]%N []) [(INode 2%N (PTag [] [97]%N [([], [107]%N, [49]%N)]) [])]).
Definition wf_ns : nsmap := [([], [])].
Definition wf_expr : xpath_expr := [(LocationPath false [(LocationStep AxChild (NameMatchTest None [97]%N) [(BooleanOperator OpLt (AttributeValue None [107]%N) (AnyValue (VNum 2%N)))])])].
Definition wf_ctx : nd := nd_at (docnode wf_tree) [0%nat].
(* implementation: ('ok', [(0, 0)])   XPath 1.0: [[0, 0]] *)
(* (g) text()[contains(@k,'')]  on  <r>t</r> *)
Definition wg_tree : itree := (INode 1%N (PTag [] [114]%N []) [(INode 2%N (PText [116]%N) [])]).
Definition wg_ns : nsmap := [([], [])].
Definition wg_expr : xpath_expr := [(LocationPath false [(LocationStep AxChild (NodeTypeTest KTextNode) [(Function [99;111;110;116;97;105;110;115]%N [(AttributeValue None [107]%N); (AnyValue (VStr []))])])])].
Definition wg_ctx : nd := nd_at (docnode wg_tree) [0%nat].
(* implementation: ('ok', [(0, 0)])   XPath 1.0: [[0, 0]] *)
(* (h) ..  on  <r/> *)
Definition wh_tree : itree := (INode 1%N (PTag [] [114]%N []) []).
Definition wh_ns : nsmap := [([], [])].
Definition wh_expr : xpath_expr := [(LocationPath false [(LocationStep AxParent (NodeTypeTest KTagNode) [])])].
Definition wh_ctx : nd := nd_at (docnode wh_tree) [0%nat].
(* implementation: ('ok', [])   XPath 1.0: [] *)
(* (i) a[text()='']  on  <r><a/></r> *)
Definition wi_tree : itree := (INode 1%N (PTag [] [114]%N []) [(INode 2%N (PTag [] [97]%N []) [])]).
Definition wi_ns : nsmap := [([], [])].
Definition wi_expr : xpath_expr := [(LocationPath false [(LocationStep AxChild (NameMatchTest None [97]%N) [(BooleanOperator OpEq (Function [116;101;120;116]%N []) (AnyValue (VStr [])))])])].
Definition wi_ctx : nd := nd_at (docnode wi_tree) [0%nat].
(* implementation: ('ok', [(0, 0)])   XPath 1.0: [] *)
(* (j) *[@p:k]  on  <r xmlns="u" xmlns:p="u"><a k="1"/></r> *)
Definition wj_tree : itree := (INode 1%N (PTag [117]%N [114]%N [([0]%N, [], [117]%N)]) [(INode 2%N (PTag [117]%N [97]%N [([], [107]%N, [49]%N); ([0]%N, [], [117]%N)]) [])]).
Definition wj_ns : nsmap := [([112]%N, [117]%N)].
Definition wj_expr : xpath_expr := [(LocationPath false [(LocationStep AxChild (AnyNameTest None) [(HasAttribute (Some [112]%N) [107]%N)])])].
Definition wj_ctx : nd := nd_at (docnode wj_tree) [0%nat].
(* implementation: ('ok', [(0, 0)])   XPath 1.0: [] *)
(* (k) a[@k=1]  on  <r><a k="1"/></r> *)
Definition wk_tree : itree := (INode 1%N (PTag [] [114]%N []) [(INode 2%N (PTag [] [97]%N [([], [107]%N, [49]%N)]) [])]).
Definition wk_ns : nsmap := [([], [])].
Definition wk_expr : xpath_expr := [(LocationPath false [(LocationStep AxChild (NameMatchTest None [97]%N) [(BooleanOperator OpEq (AttributeValue None [107]%N) (AnyValue (VNum 1%N)))])])].
Definition wk_ctx : nd := nd_at (docnode wk_tree) [0%nat].
(* implementation: ('ok', [(0, 0)])   XPath 1.0: [[0, 0]] *)
(* (m) a[@k=1]  on  <r><a k="<U+00A0>1"/></r> *)
Definition wm_tree : itree := (INode 1%N (PTag [] [114]%N []) [(INode 2%N (PTag [] [97]%N [([], [107]%N, [160;49]%N)]) [])]).
Definition wm_ns : nsmap := [([], [])].
Definition wm_expr : xpath_expr := [(LocationPath false [(LocationStep AxChild (NameMatchTest None [97]%N) [(BooleanOperator OpEq (AttributeValue None [107]%N) (AnyValue (VNum 1%N)))])])].
Definition wm_ctx : nd := nd_at (docnode wm_tree) [0%nat].
(* implementation: ('ok', [(0, 0)])   XPath 1.0: [] *)
(* (n) a[contains(position(),'1')]  on  <r><a/></r> *)
Definition wn_tree : itree := (INode 1%N (PTag [] [114]%N []) [(INode 2%N (PTag [] [97]%N []) [])]).
Definition wn_ns : nsmap := [([], [])].
Definition wn_expr : xpath_expr := [(LocationPath false [(LocationStep AxChild (NameMatchTest None [97]%N) [(Function [99;111;110;116;97;105;110;115]%N [(Function [112;111;115;105;116;105;111;110]%N []); (AnyValue (VStr [49]%N))])])])].
Definition wn_ctx : nd := nd_at (docnode wn_tree) [0%nat].
(* implementation: ('crash', 'TypeError')   XPath 1.0: [[0, 0]] *)
(* (o) a[@k=(1=2)]  on  <r><a/></r> *)
Definition wo_tree : itree := (INode 1%N (PTag [] [114]%N []) [(INode 2%N (PTag [] [97]%N []) [])]).
Definition wo_ns : nsmap := [([], [])].
Definition wo_expr : xpath_expr := [(LocationPath false [(LocationStep AxChild (NameMatchTest None [97]%N) [(BooleanOperator OpEq (AttributeValue None [107]%N) (BooleanOperator OpEq (AnyValue (VNum 1%N)) (AnyValue (VNum 2%N))))])])].
Definition wo_ctx : nd := nd_at (docnode wo_tree) [0%nat].
(* implementation: ('ok', [])   XPath 1.0: [[0, 0]] *)
Definition ex_tree : itree := (INode 1%N (PTag [] [114]%N []) [(INode 2%N (PTag [] [97]%N [([], [107]%N, [49]%N)]) [(INode 3%N (PText [116]%N) []); (INode 4%N (PTag [] [98]%N []) []); (INode 5%N (PText [117]%N) []); (INode 6%N (PComment [99]%N) []); (INode 7%N (PTag [] [98]%N [([], [107]%N, [50]%N); ([], [106]%N, [])]) [(INode 8%N (PText [118]%N) [])]); (INode 9%N (PPI [112]%N [113]%N) [])]); (INode 10%N (PTag [] [97]%N []) []); (INode 11%N (PTag [] [99]%N []) [(INode 12%N (PTag [117]%N [97]%N [([], [107]%N, [49]%N)]) [(INode 13%N (PTag [] [98]%N []) [])]); (INode 14%N (PText [119]%N) [])])]).
Definition ex_ns : nsmap := [([], []); ([112]%N, [117]%N)].
Definition ex_expr : xpath_expr := [(LocationPath true [(LocationStep AxDescendantOrSelf (NodeTypeTest KTagNode) []); (LocationStep AxChild (NameMatchTest None [97]%N) [(BooleanOperator OpEq (AttributeValue None [107]%N) (AnyValue (VStr [49]%N))); (Function [110;111;116]%N [(BooleanOperator OpEq (Function [112;111;115;105;116;105;111;110]%N []) (AnyValue (VNum 2%N)))])]); (LocationStep AxFollowing (NameMatchTest None [98]%N) [(BooleanOperator OpEq (Function [112;111;115;105;116;105;111;110]%N []) (AnyValue (VNum 1%N)))])]); (LocationPath false [(LocationStep AxChild (NameMatchTest None [99]%N) []); (LocationStep AxChild (NameMatchTest (Some [112]%N) [97]%N) []); (LocationStep AxParent (NodeTypeTest KTagNode) [])]); (LocationPath false [(LocationStep AxSelf (NodeTypeTest KTagNode) []); (LocationStep AxDescendantOrSelf (NodeTypeTest KTagNode) []); (LocationStep AxChild (NameMatchTest None [98]%N) [(BooleanOperator OpAnd (HasAttribute None [107]%N) (Function [99;111;110;116;97;105;110;115]%N [(AttributeValue None [107]%N); (AnyValue (VStr [50]%N))])); (BooleanOperator OpGe (AttributeValue None [107]%N) (AnyValue (VNum 2%N))); (Function [110;111;116]%N [(HasAttribute None [120]%N)])]); (LocationStep AxPrecedingSibling (NodeTypeTest KTagNode) [])])].
Definition ex_ctx : nd := nd_at (docnode ex_tree) [0%nat].

Definition paths_of (l : list nd) : list npath := map fst l.
(* what the evaluator returns / what the reference semantics of the deviated expression says *)
Definition got (t : itree) (m : nsmap) (e : xpath_expr) (c : nd) : res (list npath) :=
  match eval (docnode t) m e c with Ok l => Ok (paths_of l) | Fault f => Fault f end.
Definition want (t : itree) (m : nsmap) (e : xpath_expr) (c : nd) : option (list npath) :=
  match deviate m e with Some re => option_map paths_of (ref_eval (docnode t) m re c) | None => None end.
