(* Which exceptions the evaluator can raise.  On expressions whose axes are among the eleven generators and whose
   predicates are typed (Subset.ty_of: known functions with the right number of arguments, no text()), for EVERY tree,
   context node and mapping -- inside in_subset or not -- the evaluation either returns a node list or raises
   XPathEvaluationError, and it raises only if the expression uses a prefix that the mapping does not declare. *)
From Coq Require Import Lia.
From Delb.Base Require Import PyStr PyStrFacts.
From Delb.Tree Require Import ATree ITree.
From Delb.XPath Require Import Ast Nav FnLang Num Eval Ref Subset EvalRef.
From Delb.Gen Require Import GenXEval.

Definition axis_real (a : axis) : bool := match a with AxOther _ => false | _ => true end.
Definition typed_pred (e : expr) : bool := match ty_of e with Some _ => true | None => false end.
Definition test_bound (m : nsmap) (t : node_test) : bool :=
  match t with NameMatchTest p _ | AnyNameTest p => pfx_ok m p | _ => true end.
Definition step_typed (s : step) : bool := let '(LocationStep a _ ps) := s in axis_real a && forallb typed_pred ps.
Definition step_bound (m : nsmap) (s : step) : bool := let '(LocationStep _ t ps) := s in test_bound m t && forallb (bound m) ps.
Definition typed (e : xpath_expr) : bool := forallb (fun p => forallb step_typed (path_steps p)) e.
Definition all_bound (m : nsmap) (e : xpath_expr) : bool := forallb (fun p => forallb (step_bound m) (path_steps p)) e.

Definition REJ {A} : res A := Rejected XPathEvaluationError.
(* "fine": a value, or the documented refusal together with an undeclared prefix *)
Definition fine {A} (r : res A) (declared : bool) : Prop := (exists v, r = Ok v) \/ (r = REJ /\ declared = false).

Lemma unknown_prefix_pfx m p : unknown_prefix m p = negb (pfx_ok m p).
Proof. unfold unknown_prefix, pfx_ok. destruct p as [q|]; [|reflexivity]. destruct (ns_get m q); reflexivity. Qed.

Lemma fine_bind {A B} (r : res A) (f : A -> res B) b1 b2 :
  fine r b1 -> (forall v, r = Ok v -> fine (f v) b2) -> fine (bind r f) (b1 && b2).
Proof.
  intros [(v & ->)|(-> & ->)] H.
  - destruct (H v eq_refl) as [(w & E)|(E & ->)]; cbn; rewrite E; [left; eauto|right; split; [reflexivity|apply andb_false_r]].
  - right. split; reflexivity.
Qed.
Lemma fine_ok {A} (v : A) b : fine (Ok v) b. Proof. left. eauto. Qed.
Lemma fine_weaken {A} (r : res A) b b' : fine r b -> (b = false -> b' = false) -> fine r b'.
Proof. intros [H|(H1 & H2)] Hb; [left; exact H|right; auto]. Qed.

Lemma go_fine (m : nsmap) (f : expr -> res pyval) (b : expr -> bool) : forall l,
  Forall (fun x => fine (f x) (b x)) l ->
  fine ((fix go (l : list expr) : res (list pyval) :=
           match l with [] => Ok [] | x :: r => bind (f x) (fun v => bind (go r) (fun vs => Ok (v :: vs))) end) l)
       ((fix go (l : list expr) : bool := match l with [] => true | x :: r => b x && go r end) l).
Proof.
  induction l as [|x l IH]; intro H; [apply fine_ok|]. inversion H; subst.
  apply fine_bind; [assumption|]. intros v _.
  eapply fine_weaken; [apply (fine_bind _ _ _ true (IH H3)); intros; apply fine_ok|]. rewrite andb_true_r. auto.
Qed.

Lemma expr_fine m e : forall t, ty_of e = Some t -> forall c pos size, fine (d_expr m e c pos size) (bound m e).
Proof.
  induction e as [[s|n]|p l|p l|o l r IHl IHr|name args IH] using expr_ind'; intros t Hty c pos size.
  - apply fine_ok.
  - apply fine_ok.
  - cbn [d_expr bound]. rewrite unknown_prefix_pfx. destruct (pfx_ok m p); cbn [negb]; [destruct (is_tagnode c); apply fine_ok|right; auto].
  - cbn [d_expr bound]. rewrite unknown_prefix_pfx. destruct (pfx_ok m p); cbn [negb]; [destruct (is_tagnode c); apply fine_ok|right; auto].
  - cbn [ty_of] in Hty. destruct (ty_of l) as [a|] eqn:Ha; [|discriminate]. destruct (ty_of r) as [b|] eqn:Hb; [|discriminate].
    rewrite d_expr_binop. cbn [bound]. apply fine_bind; [eapply IHl; eauto|]. intros va _.
    eapply fine_weaken; [apply (fine_bind _ _ _ true (IHr b eq_refl c pos size))|rewrite andb_true_r; auto].
    intros vb _. destruct o; apply fine_ok.
  - (* Function: ty_of fixes the name and the number of arguments, so the call itself cannot fail *)
    assert (Hargs : fine ((fix go (l : list expr) : res (list pyval) :=
                             match l with [] => Ok [] | x :: r => bind (d_expr m x c pos size) (fun v => bind (go r) (fun vs => Ok (v :: vs))) end) args)
                         (bound m (Function name args))).
    { cbn [bound]. apply (go_fine m (fun x => d_expr m x c pos size) (bound m)).
      rewrite Forall_forall in *. intros x Hx.
      assert (Hx' : exists a, ty_of x = Some a).
      { cbn [ty_of] in Hty.
        assert (Hall : forallb (fun t => match t with Some _ => true | None => false end)
                         ((fix go (l : list expr) : list (option ty) := match l with [] => [] | x :: r => ty_of x :: go r end) args) = true).
        { repeat match type of Hty with
                 | (if ?b then _ else _) = _ => destruct b
                 end;
          repeat match type of Hty with
                 | match ?T with _ => _ end = _ => destruct T as [|[|] ?]; try discriminate Hty
                 end; try reflexivity; try discriminate Hty.
          all: cbn; repeat match goal with |- context [match ?o with Some _ => true | None => false end] => destruct o; try discriminate Hty end; try reflexivity. }
        pose proof (go_tys_some _ _ Hall) as F. rewrite Forall_forall in F. exact (F x Hx). }
      destruct Hx' as (a & Ha). exact (IH x Hx a Ha c pos size). }
    cbn [d_expr]. eapply fine_weaken; [apply (fine_bind _ _ _ true Hargs)|rewrite andb_true_r; auto].
    intros vs Hvs. cbn [ty_of] in Hty.
    (* the shape of the argument list gives the length of vs *)
    assert (Hlen : length vs = length args).
    { clear -Hvs. revert vs Hvs. induction args as [|x l IHl]; intros vs H; [inversion H; reflexivity|].
      destruct (d_expr m x c pos size) as [v|]; [|discriminate H]. cbn [bind] in H.
      match type of H with bind ?G _ = _ => destruct G as [ws|] eqn:E; [|discriminate H] end.
      cbn in H. inversion H; subst. cbn. f_equal. apply IHl. reflexivity. }
    destruct (str_is name FN_position || str_is name FN_last) eqn:E1.
    { destruct args as [|x args]; [|cbn in Hty; destruct (ty_of x); discriminate].
      destruct vs; [|discriminate Hlen]. apply orb_prop in E1 as [E|E]; apply str_is_eq in E; subst name; apply fine_ok. }
    destruct (str_is name FN_not || str_is name FN_boolean) eqn:E2.
    { destruct args as [|x [|y args]]; try (cbn in Hty; repeat match type of Hty with context [ty_of ?z] => destruct (ty_of z) end; discriminate).
      destruct vs as [|v [|? ?]]; try discriminate Hlen.
      apply orb_prop in E2 as [E|E]; apply str_is_eq in E; subst name; apply fine_ok. }
    destruct (str_is name FN_contains || str_is name FN_starts_with) eqn:E3.
    { destruct args as [|x [|y [|z args]]]; try (cbn in Hty; repeat match type of Hty with context [ty_of ?z] => destruct (ty_of z) end; discriminate).
      destruct vs as [|v [|w [|? ?]]]; try discriminate Hlen.
      apply orb_prop in E3 as [E|E]; apply str_is_eq in E; subst name; apply fine_ok. }
    destruct (str_is name FN_concat) eqn:E4; [|discriminate]. apply str_is_eq in E4. subst name.
    rewrite call_concat. apply fine_ok.
Qed.

Lemma filter_pred_fine m p size : typed_pred p = true ->
  forall cs pos, fine (filter_pred m p size pos cs) (bound m p).
Proof.
  unfold typed_pred. destruct (ty_of p) as [t|] eqn:Ht; [|discriminate]. intros _.
  induction cs as [|c cs IH]; intro pos; [apply fine_ok|]. cbn [filter_pred].
  eapply fine_weaken; [apply (fine_bind _ _ _ (bound m p) (expr_fine m p t Ht c pos size))|destruct (bound m p); auto].
  intros v _. eapply fine_weaken; [apply (fine_bind _ _ _ true (IH (pos + 1)%N)); intros; apply fine_ok|rewrite andb_true_r; auto].
Qed.
Lemma apply_preds_fine m : forall ps cs, forallb typed_pred ps = true -> fine (apply_preds m ps cs) (forallb (bound m) ps).
Proof.
  induction ps as [|p ps IH]; intros cs H; [apply fine_ok|]. cbn [forallb] in *. apply andb_prop in H as [H1 H2].
  cbn [apply_preds]. apply fine_bind; [apply filter_pred_fine; exact H1|]. intros; apply IH; exact H2.
Qed.
Lemma test_fine m t c : fine (d_test m t c) (test_bound m t).
Proof.
  destruct t as [p l|p|k|tg]; cbn [d_test test_bound]; try apply fine_ok.
  - rewrite unknown_prefix_pfx. destruct (pfx_ok m p); cbn [negb]; [|right; auto].
    destruct (negb (is_tagnode c)); [apply fine_ok|]. destruct (ipayload (snd c)); apply fine_ok.
  - rewrite unknown_prefix_pfx. destruct (pfx_ok m p); cbn [negb]; [|right; auto].
    destruct (negb (is_tagnode c)); [apply fine_ok|]. destruct p as [[|? ?]|]; destruct (ipayload (snd c)); apply fine_ok.
  - destruct (is_doc c); [apply fine_ok|]. destruct (ipayload (snd c)); apply fine_ok.
Qed.
Lemma filter_test_fine m t : forall l, fine (filter_test m t l) (test_bound m t).
Proof.
  induction l as [|c l IH]; [apply fine_ok|]. cbn [filter_test].
  eapply fine_weaken; [apply (fine_bind _ _ _ (test_bound m t) (test_fine m t c))|destruct (test_bound m t); auto].
  intros b _. eapply fine_weaken; [apply (fine_bind _ _ _ true IH); intros; apply fine_ok|rewrite andb_true_r; auto].
Qed.
Lemma axis_no_fault D a n : axis_real a = true -> snd (d_axis D a n) = None.
Proof. destruct a; try discriminate; intros _; cbn; try reflexivity; destruct (is_doc n); reflexivity. Qed.

Lemma step1_fine D m s n : step_typed s = true -> fine (d_step1 D m s n) (step_bound m s).
Proof.
  destruct s as [a t ps]. cbn [step_typed step_bound]. intro H. apply andb_prop in H as [Ha Hp].
  unfold d_step1. pose proof (axis_no_fault D a n Ha) as Hx. destruct (d_axis D a n) as [gen af]. cbn in Hx. subst af.
  apply fine_bind; [apply filter_test_fine|]. intros; apply apply_preds_fine; exact Hp.
Qed.

(* streams: no fault, or the refusal with an undeclared prefix *)
Definition sfine (f : option fault) (declared : bool) : Prop :=
  f = None \/ (f = Some (FRejected XPathEvaluationError) /\ declared = false).
Lemma collect_fine D m s : step_typed s = true -> forall ns, sfine (snd (collect D m s ns)) (step_bound m s).
Proof.
  intros H. induction ns as [|n ns IH]; [left; reflexivity|]. cbn [collect].
  destruct (step1_fine D m s n H) as [(l & ->)|(-> & Hb)].
  - destruct (collect D m s ns) as [l' f]. exact IH.
  - right. split; [reflexivity|exact Hb].
Qed.
Lemma d_step_fine D m s inp b : step_typed s = true -> sfine (snd inp) b -> sfine (snd (d_step D m s inp)) (b && step_bound m s).
Proof.
  intros H Hin. unfold d_step. pose proof (collect_fine D m s H (fst inp)) as Hc. destruct (collect D m s (fst inp)) as [c f].
  cbn [snd] in *. destruct Hc as [->|(-> & Hb)].
  - destruct Hin as [->|(-> & ->)]; [left; reflexivity|right; auto].
  - right. split; [reflexivity|]. rewrite Hb. apply andb_false_r.
Qed.
Lemma steps_fine D m : forall ss inp b, forallb step_typed ss = true -> sfine (snd inp) b ->
  sfine (snd (fold_left (fun acc s => d_step D m s acc) ss inp)) (b && forallb (step_bound m) ss).
Proof.
  induction ss as [|s ss IH]; intros inp b H Hin; cbn [fold_left forallb].
  - rewrite andb_true_r. exact Hin.
  - cbn [forallb] in H. apply andb_prop in H as [H1 H2]. rewrite andb_assoc. apply IH; [exact H2|]. apply d_step_fine; assumption.
Qed.
Lemma paths_fine D m ctx : forall e, typed e = true -> sfine (snd (d_paths D m e ctx)) (all_bound m e).
Proof.
  unfold typed, all_bound. induction e as [|p e IH]; intro H; [left; reflexivity|]. cbn [forallb] in *. apply andb_prop in H as [H1 H2].
  cbn [d_paths]. destruct p as [ab ss]. cbn [path_steps] in *.
  pose proof (steps_fine D m ss ([if ab then ([], D) else ctx], None) true H1 (or_introl eq_refl)) as Hp.
  unfold d_path. destruct (fold_left _ ss _) as [l f]. cbn [snd andb] in Hp. destruct Hp as [->|(-> & Hb)].
  - specialize (IH H2). destruct (d_paths D m e ctx) as [l' f']. cbn [snd] in *.
    destruct IH as [->|(-> & Hb)]; [left; reflexivity|right; split; [reflexivity|rewrite Hb; apply andb_false_r]].
  - right. split; [reflexivity|]. rewrite Hb. reflexivity.
Qed.

(* the evaluator on typed expressions: a node list, or XPathEvaluationError because of an undeclared prefix *)
Lemma eval_fine D m e ctx : typed e = true ->
  (exists l, eval D m e ctx = Ok l) \/ (eval D m e ctx = Rejected XPathEvaluationError /\ all_bound m e = false).
Proof.
  intro H. pose proof (paths_fine D m ctx e H) as Hp. unfold eval. destruct (d_paths D m e ctx) as [l f]. cbn [snd] in Hp.
  destruct Hp as [->|(-> & Hb)]; [left; eauto|right; auto].
Qed.
Lemma eval_no_fault D m e ctx : typed e = true -> all_bound m e = true -> exists l, eval D m e ctx = Ok l.
Proof. intros H Hb. destruct (eval_fine D m e ctx H) as [Hl|(_ & Hc)]; [exact Hl|congruence]. Qed.
