(* Model of TagNode.location_path (/repo/_delb/nodes.py).  Definitions only.

     if self.parent is None: return "/*"
     with altered_default_filters(is_tag_node):
         steps = list(self.iterate_ancestors()); steps.pop(); steps.reverse(); steps.append(self)
         return "/*" + "".join(f"/*[{n.index + 1}]" for n in steps)

   The result is modelled as the AST the real parser produces for that string (checked on every run: the string of
   the real property, parsed by the real parser, has the encoding AstEnc.enc_expr of the model's value).
   `steps` after pop/reverse/append are the nodes on the way from below the root down to the node; `n.index` under
   the tag filter is the number of tag siblings before n.  The ambient filter plays no role: the `with` statement
   *replaces* it (no `extend`), `self.parent` does not consult filters, and iterate_ancestors tests
   `parent is not None` (since the fix commit e33ed43 in /repo; before that it tested truthiness, i.e.
   `len(parent) > 0` under the tag filter, which also held for every ancestor of a tag node) -- hence no
   ambient-filter parameter and no truncation branch. *)
From Delb.Base Require Import PyStr.
From Delb.Tree Require Import ATree ITree.
From Delb.XPath Require Import Ast Nav Ref.

Definition is_tag_t (t : itree) : bool := match ipayload t with PTag _ _ _ => true | _ => false end.
(* TagNode.index under altered_default_filters(is_tag_node) *)
Definition tag_index (kids : list itree) (i : nat) : nat := length (filter is_tag_t (firstn i kids)).

Definition star_step : step := LocationStep AxChild (AnyNameTest None) [].
Definition position_is (k : N) : expr := BooleanOperator OpEq (Function FN_position []) (AnyValue (VNum k)).
Definition idx_step (k : nat) : step := LocationStep AxChild (AnyNameTest None) [position_is (N.of_nat k)].

(* the "/*[k]" steps for the node at relative position q below t *)
Fixpoint lp_steps (t : itree) (q : npath) : list step :=
  match q with
  | [] => []
  | i :: q' => match nth_error (tkids t) i with
               | Some k => idx_step (S (tag_index (tkids t) i)) :: lp_steps k q'
               | None => []
               end
  end.
(* p: position from the document node (0 :: q) *)
Definition location_path (root : itree) (p : npath) : xpath_expr :=
  match p with
  | _ :: q => [LocationPath true (star_step :: lp_steps root q)]
  | [] => []
  end.

(* the shape claim of C14: indexed wildcard child steps only *)
Definition is_star (s : step) : bool :=
  match s with LocationStep AxChild (AnyNameTest None) [] => true | _ => false end.
Definition is_indexed_star (s : step) : bool :=
  match s with
  | LocationStep AxChild (AnyNameTest None)
      [BooleanOperator OpEq (Function f []) (AnyValue (VNum k))] => str_eqb f FN_position && negb (N.eqb k 0)
  | _ => false
  end.
Definition lp_shape (e : xpath_expr) : bool :=
  match e with
  | [LocationPath true (s :: ss)] => is_star s && forallb is_indexed_star ss
  | _ => false
  end.
