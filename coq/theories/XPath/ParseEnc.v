(* Canonical encoding of what parse(expression) shows its caller, for the correspondence check
   (harness/props/c16.py computes the same list from the real call).
     [0] ++ AstEnc.enc_expr ast
     [1; position; unsupported?] ++ enc_str message ++ enc_str str(e)
     [2; site id; exception class id]
     [3]                                  out of fuel (excluded by C16_no_other_outcome) *)
From Coq Require Import List NArith.
From Delb.Base Require Import PyStr.
From Delb.Tree Require Import ATree Encode.
From Delb.XPath Require Import XBase Tok Ast AstEnc Parse.
From Delb.XPath Require Import TTree.
From Delb.Gen Require Import GenXPath GenXPathFns.
Import ListNotations.

Definition enc_outcome (s : str) (o : outcome) : list N :=
  match o with
  | OOk e => 0%N :: enc_expr e
  | ORej p m u =>
      [1%N; N.of_nat p; if u then 1%N else 0%N] ++ enc_str m
      ++ match xpe_str (Some s) (Some p) (Some m) with Some r => enc_str r | None => [] end
  | OCrash c => [2%N; site_id c; xclass_id (site_class c)]
  | OFuel => [3%N]
  end.
Definition parse_enc (s : str) : list N := enc_outcome s (parse s).

Definition enc_token (t : token) : list N := N.of_nat (t_pos t) :: tkind_id (t_kind t) :: enc_str (t_str t).
Definition tokenize_enc (s : str) : list N :=
  match tokenize s with
  | POk l => 0%N :: enc_list enc_token l
  | PRej e => [1%N; match x_pos e with Some p => N.of_nat p | None => 0%N end]
  | PCrash c => [2%N; site_id c]
  | PFuel => [3%N]
  end.

(* the outcome when the interpreter runs out of stack during the call *)
Definition parse_overflow_enc (s : str) : list N := enc_outcome s (parse_under true s).
