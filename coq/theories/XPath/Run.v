(* Entry points the checks evaluate with vm_compute (harness/xq.py builds the terms and decodes the results).
   Results are number lists:  node list -> count :: (length :: indexes)* ;
   eval  -> 0 :: node list | 1 :: [exn] (Rejected) | 2 :: [exn] (Crash);   reference -> 0 :: node list | 3 (outside Ref's subset) *)
From Delb.Base Require Import PyStr.
From Delb.Tree Require Import ATree ITree Encode.
From Delb.XPath Require Import Ast Nav Eval Ref Subset.

Definition nd_at (D : itree) (p : npath) : nd := (p, opt_default D (subtree D p)).

Definition enc_pos (p : npath) : list N := N.of_nat (length p) :: map N.of_nat p.
Definition enc_nodes (l : list nd) : list N := enc_list (fun x => enc_pos (fst x)) l.
Definition enc_exn (e : exn) : N :=
  match e with XPathEvaluationError => 0 | AttributeError => 1 | AssertionError => 2 | TypeError => 3
             | NotImplementedError => 4 | OtherError => 5 | ValueError => 6 | AmbiguousTreeError => 7 | InvalidOperation => 8 end%N.
Definition enc_res (r : res (list nd)) : list N :=
  match r with
  | Ok l => 0%N :: enc_nodes l
  | Fault (FRejected e) => [1%N; enc_exn e]
  | Fault (FCrash e) => [2%N; enc_exn e]
  end.
Definition enc_ref (r : option (list nd)) : list N :=
  match r with Some l => 0%N :: enc_nodes l | None => [3%N] end.

Definition run_eval (root : itree) (m : nsmap) (e : xpath_expr) (ctx : npath) : list N :=
  let D := docnode root in enc_res (eval D m e (nd_at D ctx)).
Definition run_ref (dev : bool) (root : itree) (m : nsmap) (e : xpath_expr) (ctx : npath) : list N :=
  let D := docnode root in
  match xlate dev m e with Some re => enc_ref (ref_eval D m re (nd_at D ctx)) | None => [4%N] end.
Definition run_subset (root : itree) (m : nsmap) (e : xpath_expr) (ctx : npath) : list N :=
  let D := docnode root in enc_bool (in_subset D m e (nd_at D ctx)).
(* everything a C06 case needs, in one term: in_subset, eval, reference (XPath 1.0), reference (with deviations),
   in_document_order of the eval result *)
Definition run_case (root : itree) (m : nsmap) (e : xpath_expr) (ctx : npath) : list N :=
  let D := docnode root in
  run_subset root m e ctx ++ run_eval root m e ctx ++ run_ref false root m e ctx ++ run_ref true root m e ctx
  ++ match eval D m e (nd_at D ctx) with Ok l => enc_res (in_document_order l) | _ => [9%N] end.

(* C14 *)
From Delb.XPath Require Import AstEnc LocPath.
Definition run_locpath (root : itree) (p : npath) : list N := enc_expr (location_path root p).
Definition run_locpath_eval (root : itree) (m : nsmap) (p ctx : npath) : list N :=
  run_eval root m (location_path root p) ctx.

(* C15 *)
From Delb.XPath Require Import FetchCreate.
Definition enc_fault (f : fault) : list N :=
  match f with FRejected e => [1%N; enc_exn e] | FCrash e => [2%N; enc_exn e] end.
(* outcome ++ content of the tree afterwards *)
(* the caller's ambient filter: 0 default (tag or text), 1 none, 2 text only, 3 comment only, 4 tag only *)
Definition vis_of (code : N) (t : itree) : bool :=
  match code, ipayload t with
  | 0%N, _ => default_vis t
  | 1%N, _ => true
  | 2%N, PText _ => true
  | 3%N, PComment _ => true
  | 4%N, PTag _ _ _ => true
  | _, _ => false
  end.
Definition run_foc_vis (code : N) (root : itree) (m_eval m_create : nsmap) (e : xpath_expr) (ctx : npath) : list N :=
  match foc (vis_of code) root m_eval m_create e ctx with
  | FocOk r p => 0%N :: enc_pos p ++ enc_node (content r)
  | FocFault r f => enc_fault f ++ enc_node (content r)
  end.
Definition run_foc (root : itree) (m_eval m_create : nsmap) (e : xpath_expr) (ctx : npath) : list N :=
  match foc default_vis root m_eval m_create e ctx with
  | FocOk r p => 0%N :: enc_pos p ++ enc_node (content r)
  | FocFault r f => enc_fault f ++ enc_node (content r)
  end.

(* CSS: the AST the model of cssselect's translation assigns to a selector of the modelled forms *)
From Delb.XPath Require Import Css.
Definition run_css_ast (g : group) : list N := enc_expr (css_ast g).
