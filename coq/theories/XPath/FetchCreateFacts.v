(* Lemmas for C15. *)
From Coq Require Import Lia.
From Delb.Base Require Import PyStr PyStrFacts.
From Delb.Tree Require Import ATree ITree.
From Delb.XPath Require Import Ast Nav Eval Ref Subset EvalRef LocPath LocPathFacts FetchCreate.

(* ================================================================ the top-level branches *)
Lemma foc_not_accepted vis root me mc e ctx :
  locatable e = false -> foc vis root me mc e ctx = FocFault root (FRejected ValueError).
Proof. intro H. unfold foc. rewrite H. reflexivity. Qed.

Lemma foc_ambiguous vis root me mc e ctx x y l :
  locatable e = true -> eval (docnode root) me e (ctx, opt_default (docnode root) (subtree (docnode root) ctx)) = Ok (x :: y :: l) ->
  foc vis root me mc e ctx = FocFault root (FRejected AmbiguousTreeError).
Proof. intros H E. unfold foc. rewrite H, E. reflexivity. Qed.

Lemma foc_fetches vis root me mc e ctx x :
  locatable e = true -> eval (docnode root) me e (ctx, opt_default (docnode root) (subtree (docnode root) ctx)) = Ok [x] ->
  foc vis root me mc e ctx = FocOk root (fst x).
Proof. intros H E. unfold foc. rewrite H, E. reflexivity. Qed.

Lemma foc_eval_fault vis root me mc e ctx f :
  locatable e = true -> eval (docnode root) me e (ctx, opt_default (docnode root) (subtree (docnode root) ctx)) = Fault f ->
  foc vis root me mc e ctx = FocFault root f.
Proof. intros H E. unfold foc. rewrite H, E. reflexivity. Qed.

Lemma locatable_shape e : locatable e = true ->
  exists ab ss, e = [LocationPath ab ss] /\
    Forall (fun s => exists p l ps, s = LocationStep AxChild (NameMatchTest p l) ps /\ forallb loc_expr ps = true) ss.
Proof.
  destruct e as [|[ab ss] [|? ?]]; cbn; try discriminate. intro H. exists ab, ss. split; [reflexivity|].
  apply Forall_forall. intros s Hs. rewrite forallb_forall in H. specialize (H s Hs).
  destruct s as [a t ps]. destruct a; try discriminate. destruct t; try discriminate. eauto.
Qed.

Lemma loc_expr_derived e : loc_expr e = true -> exists ds, derived_expr e = Some ds.
Proof.
  induction e as [v|p l|p l|o l r IHl IHr|name args _] using expr_ind'; cbn; try discriminate.
  destruct o; try discriminate.
  - destruct l as [[s|n]|p a|p a|? ? ?|? ?]; try discriminate;
      destruct r as [[s'|n']|p' a'|p' a'|? ? ?|? ?]; try discriminate; eauto.
  - intro H. apply andb_prop in H as [H1 H2]. destruct (IHl H1) as (a & ->). destruct (IHr H2) as (b & ->). eauto.
Qed.
Lemma loc_preds_derived ps : forallb loc_expr ps = true -> exists ds, derived_preds ps = Some ds.
Proof.
  induction ps as [|p ps IH]; cbn; [eauto|]. intro H. apply andb_prop in H as [H1 H2].
  destruct (loc_expr_derived p H1) as (a & ->). destruct (IH H2) as (b & ->). eauto.
Qed.

(* ================================================================ evaluation of an accepted step = a filter over the children *)
(* the domain of the creation theorems, per step: the documented shape, every prefix declared and not empty *)
Definition pfx_wf (p : option str) : bool := match p with Some [] => false | _ => true end.
Fixpoint attr_pfx_wf (e : expr) : bool :=
  match e with
  | AttributeValue p _ | HasAttribute p _ => pfx_wf p
  | BooleanOperator _ l r => attr_pfx_wf l && attr_pfx_wf r
  | _ => true
  end.
Definition key_of (m : nsmap) (d : str * str * str) : str :=
  let p := fst (fst d) in if null p then [] else opt_default [] (ns_get m p).
Definition built_attrs (m : nsmap) (ds : list (str * str * str)) : list attr :=
  fold_left (fun acc d => let '(p, k, v) := d in set_attr (if null p then [] else opt_default [] (ns_get m p)) k v acc) ds [].
(* non-contradictory: every required attribute value is still there after all of them have been set *)
Definition consistent (m : nsmap) (ds : list (str * str * str)) : bool :=
  forallb (fun d => match get_attr (key_of m d) (snd (fst d)) (built_attrs m ds) with
                    | Some v => str_eqb v (snd d) | None => false end) ds.
Definition step_good0 (m : nsmap) (s : step) : bool :=
  match s with
  | LocationStep AxChild (NameMatchTest p l) ps =>
      forallb loc_expr ps && pfx_ok m p && pfx_wf p && forallb (bound m) ps && forallb attr_pfx_wf ps
      && match derived_preds ps with Some ds => consistent m ds | None => false end
  | _ => false
  end.

Definition step_good (m : nsmap) (s : step) : bool := step_good0 m s.
Ltac use_unreserved Us Ed H :=
  unfold unreserved in Us; rewrite Ed in Us; apply negb_true_iff in Us; rewrite Us in H.

Definition name_ok (m : nsmap) (p : option str) (l : str) (k : itree) : bool :=
  match ipayload k with
  | PTag ns name _ => str_eqb ns (opt_default [] (ns_get m (opt_default [] p))) && str_eqb name l
  | _ => false
  end.
Fixpoint pred_b (m : nsmap) (e : expr) (pl : payload) : bool :=
  match e with
  | BooleanOperator OpAnd l r => pred_b m l pl && pred_b m r pl
  | BooleanOperator OpEq (AttributeValue p a) (AnyValue (VStr v)) =>
      match delb_attr pl (attr_ns m p) a with Some x => str_eqb x v | None => false end
  | BooleanOperator OpEq (AnyValue (VStr v)) (AttributeValue p a) =>
      match delb_attr pl (attr_ns m p) a with Some x => str_eqb v x | None => false end
  | _ => false
  end.
Definition smatch (m : nsmap) (p : option str) (l : str) (ps : list expr) (k : itree) : bool :=
  name_ok m p l k && forallb (fun e => pred_b m e (ipayload k)) ps.

Lemma pred_value m e : loc_expr e = true -> bound m e = true ->
  forall c pos size, is_tagnode c = true -> d_expr m e c pos size = Ok (PBool (pred_b m e (ipayload (snd c)))).
Proof.
  induction e as [v|p l|p l|o l r IHl IHr|name args _] using expr_ind'; cbn [loc_expr]; try discriminate.
  intros Hl Hb c pos size Ht. destruct o; try discriminate.
  - (* = *)
    destruct l as [[s|n]|p a|p a|? ? ?|? ?]; try discriminate;
      destruct r as [[s'|n']|p' a'|p' a'|? ? ?|? ?]; try discriminate; cbn [bound] in Hb.
    + rewrite andb_true_l in Hb. rewrite d_expr_binop. cbn [d_expr]. rewrite (unknown_prefix_ok _ _ Hb), Ht. cbn [bind pred_b].
      destruct (delb_attr (ipayload (snd c)) (attr_ns m p') a'); reflexivity.
    + rewrite andb_true_r in Hb. rewrite d_expr_binop. cbn [d_expr]. rewrite (unknown_prefix_ok _ _ Hb), Ht. cbn [bind pred_b].
      destruct (delb_attr (ipayload (snd c)) (attr_ns m p) a); reflexivity.
  - (* and *)
    apply andb_prop in Hl as [H1 H2]. cbn [bound] in Hb. apply andb_prop in Hb as [B1 B2].
    rewrite d_expr_binop, (IHl H1 B1 c pos size Ht), (IHr H2 B2 c pos size Ht). reflexivity.
Qed.

Lemma filter_pred_is_filter m p size (f : nd -> bool) : forall cs pos,
  (forall c pos', In c cs -> d_expr m p c pos' size = Ok (PBool (f c))) ->
  filter_pred m p size pos cs = Ok (filter f cs).
Proof.
  induction cs as [|c cs IH]; intros pos H; [reflexivity|].
  cbn [filter_pred filter]. rewrite (H c pos (or_introl eq_refl)). cbn [bind].
  rewrite IH by (intros; apply H; right; assumption). cbn [bind keep_py truthy]. reflexivity.
Qed.
Lemma filter_filter {A} (f g : A -> bool) l : filter g (filter f l) = filter (fun x => f x && g x) l.
Proof.
  induction l as [|x l IH]; [reflexivity|]. cbn. destruct (f x); cbn; [destruct (g x); rewrite IH; reflexivity|exact IH].
Qed.
Lemma filter_ext_in {A} (f g : A -> bool) l : (forall x, In x l -> f x = g x) -> filter f l = filter g l.
Proof.
  induction l as [|x l IH]; intro H; [reflexivity|]. cbn. rewrite (H x (or_introl eq_refl)).
  rewrite IH by (intros; apply H; right; assumption). reflexivity.
Qed.
Lemma apply_preds_is_filter m (g : expr -> nd -> bool) : forall ps cs,
  (forall p c pos size, In p ps -> In c cs -> d_expr m p c pos size = Ok (PBool (g p c))) ->
  apply_preds m ps cs = Ok (filter (fun c => forallb (fun p => g p c) ps) cs).
Proof.
  induction ps as [|p ps IH]; intros cs H; cbn [apply_preds forallb].
  - rewrite filter_all_true; [reflexivity|auto].
  - rewrite (filter_pred_is_filter m p _ (g p)) by (intros; apply H; [left; reflexivity|assumption]). cbn [bind].
    rewrite IH.
    + rewrite filter_filter. reflexivity.
    + intros q c pos size Hq Hc. apply H; [right; exact Hq|]. apply filter_In in Hc. tauto.
Qed.

Lemma child_is_tagnode n c : In c (children n) -> is_tagnode c = is_tag_t (snd c).
Proof.
  intro H. pose proof (children_nonnil n c H) as Hn. unfold is_tagnode, is_doc, is_tag_t. destruct (fst c); [congruence|reflexivity].
Qed.

(* LocationStep._evaluate of an accepted step: the children that match name and attribute values; no fault *)
Lemma good_step_eval D m p l ps n :
  step_good0 m (LocationStep AxChild (NameMatchTest p l) ps) = true ->
  d_step1 D m (LocationStep AxChild (NameMatchTest p l) ps) n = Ok (filter (fun c => smatch m p l ps (snd c)) (children n)).
Proof.
  unfold step_good0. intro G. repeat (apply andb_prop in G as [G ?]).
  unfold d_step1. cbn [d_axis].
  assert (T : filter_test m (NameMatchTest p l) (children n) = Ok (filter (fun c => name_ok m p l (snd c)) (children n))).
  { generalize (children_nonnil n). induction (children n) as [|c cs IH]; intro Hn; [reflexivity|].
    cbn [filter_test filter]. rewrite IH by (intros; apply Hn; right; assumption). cbn [d_test].
    rewrite (unknown_prefix_ok _ _ H3).
    assert (E : is_tagnode c = is_tag_t (snd c)).
    { unfold is_tagnode, is_doc, is_tag_t. specialize (Hn c (or_introl eq_refl)). destruct (fst c); [congruence|reflexivity]. }
    rewrite E. unfold name_ok, is_tag_t. destruct c as [q [i pl kids]]. cbn [snd ipayload].
    destruct pl; cbn; try reflexivity.
    destruct p as [q'|]; cbn; match goal with |- context [str_eqb ?a ?b && str_eqb ?c ?d] => destruct (str_eqb a b && str_eqb c d) end; reflexivity. }
  rewrite T. cbn [bind].
  rewrite (apply_preds_is_filter m (fun e c => pred_b m e (ipayload (snd c)))).
  - rewrite filter_filter. reflexivity.
  - intros e c pos size He Hc. apply filter_In in Hc as [Hc Hn].
    rewrite forallb_forall in G, H1. apply pred_value; auto.
    rewrite (child_is_tagnode n c Hc). unfold name_ok in Hn. unfold is_tag_t. destruct (ipayload (snd c)); try discriminate. reflexivity.
Qed.

(* ================================================================ de-duplication does nothing on children *)
Lemma dedup_aux_id : forall l seen, NoDup (map fst l) -> (forall x, In x l -> ~ In (fst x) seen) -> dedup_aux seen l = l.
Proof.
  induction l as [|x l IH]; intros seen N H; [reflexivity|]. cbn [dedup_aux].
  destruct (path_mem (fst x) seen) eqn:E.
  - apply path_mem_In in E. exfalso. apply (H x (or_introl eq_refl)). exact E.
  - f_equal. cbn in N. inversion N; subst. apply IH; [assumption|].
    intros y Hy [Hs|Hs].
    + apply H2. rewrite Hs. apply in_map. exact Hy.
    + apply (H y (or_intror Hy)). exact Hs.
Qed.
Lemma dedup_id l : NoDup (map fst l) -> dedup l = l.
Proof. intro N. apply dedup_aux_id; [exact N|]. intros x _ []. Qed.

Lemma number_from_ge {A} (l : list A) : forall i j x, In (j, x) (number_from i l) -> i <= j.
Proof.
  induction l as [|y l IH]; intros i j x H; cbn in H; [contradiction|].
  destruct H as [H|H]; [inversion H; lia|]. apply IH in H. lia.
Qed.
Lemma number_from_NoDup {A} (l : list A) : forall i, NoDup (map fst (number_from i l)).
Proof.
  induction l as [|y l IH]; intro i; cbn; constructor; [|apply IH].
  intro H. apply in_map_iff in H as ([j x] & Hj & Hin). cbn in Hj. subst j. apply number_from_ge in Hin. lia.
Qed.
Lemma NoDup_map_inj {A B} (f : A -> B) l : (forall a b, f a = f b -> a = b) -> NoDup l -> NoDup (map f l).
Proof.
  intros Hf N. induction N as [|x l Hx N IH]; cbn; constructor; [|exact IH].
  intro H. apply in_map_iff in H as (y & Hy & Hin). apply Hf in Hy. subst. contradiction.
Qed.
Lemma children_NoDup n : NoDup (map fst (children n)).
Proof.
  assert (E : map fst (children n) = map (fun i => fst n ++ [i]) (map fst (number_from 0 (tkids (snd n))))).
  { unfold children, children_rel. rewrite !map_map. apply map_ext. intro a. reflexivity. }
  rewrite E. apply NoDup_map_inj; [|apply number_from_NoDup].
  intros a b H. apply app_inv_head in H. inversion H. reflexivity.
Qed.
Lemma NoDup_filter_fst (f : nd -> bool) l : NoDup (map fst l) -> NoDup (map fst (filter f l)).
Proof.
  induction l as [|x l IH]; cbn; intro N; [constructor|]. inversion N; subst.
  destruct (f x); cbn; [constructor; [|auto]|auto].
  intro H. apply H1. apply in_map_iff in H as (y & Hy & Hin). apply filter_In in Hin as [Hin _]. rewrite <- Hy. apply in_map. exact Hin.
Qed.

(* LocationStep.evaluate of an accepted step on ONE node *)
Lemma good_step_single D m p l ps n :
  step_good0 m (LocationStep AxChild (NameMatchTest p l) ps) = true ->
  d_step D m (LocationStep AxChild (NameMatchTest p l) ps) ([n], None) =
  (filter (fun c => smatch m p l ps (snd c)) (children n), None).
Proof.
  intro G. unfold d_step. cbn [fst snd collect]. rewrite (good_step_eval D m p l ps n G). rewrite app_nil_r.
  rewrite dedup_id; [reflexivity|]. apply NoDup_filter_fst. apply children_NoDup.
Qed.

(* the candidates by index *)
Definition sel (f : itree -> bool) (i0 : nat) (kids : list itree) : list (nat * itree) :=
  filter (fun ik => f (snd ik)) (number_from i0 kids).
Lemma children_filter pos t0 (f : itree -> bool) :
  filter (fun c => f (snd c)) (children (pos, t0)) = map (fun ik => (pos ++ [fst ik], snd ik)) (sel f 0 (tkids t0)).
Proof.
  unfold children, children_rel, sel. cbn [fst snd]. rewrite map_map. cbn.
  induction (number_from 0 (tkids t0)) as [|ik l IH]; [reflexivity|]. cbn. destruct (f (snd ik)); cbn; rewrite IH; reflexivity.
Qed.

(* ================================================================ candidates after an update / an insertion *)
Lemma sel_update (f : itree -> bool) : forall kids i0 j k k',
  sel f i0 kids = [(j, k)] -> f k' = true ->
  exists i, j = i0 + i /\ nth_error kids i = Some k /\ sel f i0 (update_nth (fun _ => k') i kids) = [(j, k')].
Proof.
  unfold sel. induction kids as [|y r IH]; intros i0 j k k' H Hk; cbn in H; [discriminate|].
  destruct (f y) eqn:Fy.
  - inversion H; subst. exists 0. split; [lia|]. split; [reflexivity|]. cbn. rewrite Hk. rewrite H3. reflexivity.
  - destruct (IH (S i0) j k k' H Hk) as (i & Hj & Hn & Hs). exists (S i). split; [lia|]. split; [exact Hn|].
    cbn. rewrite Fy. exact Hs.
Qed.
Lemma sel_nil (f : itree -> bool) : forall kids i0, (forall k, In k kids -> f k = false) -> sel f i0 kids = [].
Proof.
  unfold sel. induction kids as [|y r IH]; intros i0 H; [reflexivity|]. cbn. rewrite (H y (or_introl eq_refl)).
  apply IH. intros; apply H; right; assumption.
Qed.
Lemma sel_nil_inv (f : itree -> bool) : forall kids i0, sel f i0 kids = [] -> forall k, In k kids -> f k = false.
Proof.
  unfold sel. induction kids as [|y r IH]; intros i0 H k Hk; [contradiction|]. cbn in H.
  destruct (f y) eqn:Fy; [discriminate|]. destruct Hk as [->|Hk]; [exact Fy|]. eapply IH; eauto.
Qed.
Lemma sel_app (f : itree -> bool) a b i0 : sel f i0 (a ++ b) = sel f i0 a ++ sel f (i0 + length a) b.
Proof. unfold sel. rewrite number_from_app, filter_app. reflexivity. Qed.
Lemma in_firstn' {A} (x : A) : forall n l, In x (firstn n l) -> In x l.
Proof. induction n as [|n IH]; intros [|y l] H; cbn in *; try contradiction. destruct H; auto. Qed.
Lemma in_skipn' {A} (x : A) : forall n l, In x (skipn n l) -> In x l.
Proof. induction n as [|n IH]; intros [|y l] H; cbn in *; auto. Qed.
Lemma sel_insert (f : itree -> bool) kids idx n' :
  (forall k, In k kids -> f k = false) -> f n' = true -> idx <= length kids ->
  sel f 0 (insert_nth idx n' kids) = [(idx, n')].
Proof.
  intros H Hn Hl. unfold insert_nth. rewrite sel_app.
  rewrite (sel_nil f (firstn idx kids)) by (intros k Hk; apply H; eapply in_firstn'; eauto).
  cbn [app]. unfold sel at 1. cbn [number_from filter snd]. rewrite Hn.
  fold (sel f (S (0 + length (firstn idx kids))) (skipn idx kids)).
  rewrite (sel_nil f (skipn idx kids)) by (intros k Hk; apply H; eapply in_skipn'; eauto).
  rewrite firstn_length, Nat.min_l by exact Hl. reflexivity.
Qed.

Lemma last_visible_bound vis : forall l i acc j, last_visible vis l i acc = Some j ->
  acc = Some j \/ (i <= j /\ j < i + length l).
Proof.
  induction l as [|x l IH]; intros i acc j H; cbn in H; [left; exact H|].
  apply IH in H as [H|H]; [|right; cbn; lia].
  destruct (vis x); [inversion H; subst; right; cbn; lia|left; exact H].
Qed.
Lemma insert_index_le vis kids : insert_index vis kids <= length kids.
Proof.
  unfold insert_index. destruct (last_visible vis kids 0 None) as [j|] eqn:E; [|lia].
  apply last_visible_bound in E as [E|E]; [discriminate|lia].
Qed.

Lemma tkids_set_kid t i k : tkids (set_kid t i k) = update_nth (fun _ => k) i (tkids t).
Proof.
  destruct t as [id p kids]. destruct p; cbn; try reflexivity; destruct i; reflexivity.
Qed.
Lemma tkids_insert_kid t i k : is_tag_t t = true -> tkids (insert_kid t i k) = insert_nth i k (tkids t).
Proof. destruct t as [id p kids]. destruct p; cbn; try discriminate. reflexivity. Qed.
Lemma payload_set_kid t i k : ipayload (set_kid t i k) = ipayload t.
Proof. destruct t; reflexivity. Qed.
Lemma payload_insert_kid t i k : ipayload (insert_kid t i k) = ipayload t.
Proof. destruct t as [id p kids]. destruct p; reflexivity. Qed.
Lemma smatch_payload m p l ps k k' : ipayload k = ipayload k' -> smatch m p l ps k = smatch m p l ps k'.
Proof. intro E. unfold smatch, name_ok. rewrite E. reflexivity. Qed.
Lemma smatch_tag m p l ps k : smatch m p l ps k = true -> is_tag_t k = true.
Proof. unfold smatch, name_ok, is_tag_t. destruct (ipayload k); cbn; try discriminate. reflexivity. Qed.

(* create_in never touches the payload of the node it works on *)
Lemma create_in_payload vis m ss pos t0 :
  match create_in vis m ss pos t0 with COk t' _ | CFault t' _ => ipayload t' = ipayload t0 end.
Proof.
  destruct ss as [|s r]; [reflexivity|]. cbn [create_in].
  destruct (d_step t0 m s ([(pos, t0)], None)) as [l o]. destruct o as [f|]; [reflexivity|].
  destruct (visible_from vis pos l) as [|x [|y l']]; try reflexivity.
  - destruct pos; [reflexivity|]. destruct s as [a t ps]. destruct t; try reflexivity.
    destruct (derived_preds ps); [|reflexivity]. destruct (existsb _ _); [reflexivity|].
    destruct (create_in vis m r _ _); apply payload_insert_kid.
  - destruct (create_in vis m r (fst x) (snd x)); apply payload_set_kid.
Qed.

(* ================================================================ the new element satisfies the step it was made for *)
Lemma get_attr_app_some ns k l r v : get_attr ns k l = Some v -> get_attr ns k (l ++ r) = Some v.
Proof.
  induction l as [|[[n a] w] l IH]; cbn; [discriminate|]. destruct (str_eqb n ns && str_eqb a k); [auto|exact IH].
Qed.

Definition readback (m : nsmap) (A : list attr) (d : str * str * str) : Prop :=
  exists v', get_attr (key_of m d) (snd (fst d)) A = Some v' /\ v' = snd d.

Lemma attr_readback m p a v ns l A inh :
  pfx_wf p = true -> readback m A (opt_default [] p, a, v) ->
  delb_attr (PTag ns l (A ++ inh)) (attr_ns m p) a = Some v.
Proof.
  intros Hw (v' & Hg & Ev). cbn [snd] in Ev. subst v'. unfold key_of in Hg. cbn [fst snd] in Hg.
  assert (Hg' : get_attr (attr_ns m p) a (A ++ inh) = Some v).
  { apply get_attr_app_some. unfold attr_ns. destruct p as [q|]; cbn [opt_default null] in *; [|exact Hg].
    destruct q as [|c q]; [discriminate Hw|exact Hg]. }
  unfold delb_attr. cbn [payload_attrs]. set (N := attr_ns m p) in *. clearbody N.
  destruct (in_scope_default (PTag ns l (A ++ inh))) as [d|]; [|exact Hg'].
  destruct N as [|x N']; cbn [null negb].
  - rewrite Hg'. cbn [negb andb]. rewrite andb_false_r. exact Hg'.
  - rewrite Hg'. rewrite orb_true_r. exact Hg'.
Qed.

Lemma pred_true m ns l A inh e : loc_expr e = true -> attr_pfx_wf e = true ->
  forall de, derived_expr e = Some de -> (forall d, In d de -> readback m A d) ->
  pred_b m e (PTag ns l (A ++ inh)) = true.
Proof.
  induction e as [v|p a|p a|o x y IHx IHy|name args _] using expr_ind'; cbn [loc_expr]; try discriminate.
  intros Hl Hw de Hd Hr. destruct o; try discriminate.
  - destruct x as [[s|n]|p a|p a|? ? ?|? ?]; try discriminate;
      destruct y as [[s'|n']|p' a'|p' a'|? ? ?|? ?]; try discriminate; cbn in Hd, Hw; inversion Hd; subst; cbn [pred_b].
    + rewrite (attr_readback m p' a' s ns l A inh); [apply str_eqb_refl|exact Hw|apply Hr; left; reflexivity].
    + rewrite andb_true_r in Hw.
      rewrite (attr_readback m p a s' ns l A inh); [apply str_eqb_refl|exact Hw|apply Hr; left; reflexivity].
  - apply andb_prop in Hl as [L1 L2]. cbn [attr_pfx_wf] in Hw. apply andb_prop in Hw as [W1 W2].
    cbn [derived_expr] in Hd. destruct (derived_expr x) as [dx|] eqn:Ex; [|discriminate].
    destruct (derived_expr y) as [dy|] eqn:Ey; [|discriminate]. inversion Hd; subst.
    cbn [pred_b]. rewrite (IHx L1 W1 dx eq_refl), (IHy L2 W2 dy eq_refl); [reflexivity| |];
      intros d Hin; apply Hr; apply in_or_app; auto.
Qed.

Lemma derived_preds_incl ps : forall ds, derived_preds ps = Some ds ->
  forall e de, In e ps -> derived_expr e = Some de -> incl de ds.
Proof.
  induction ps as [|p ps IH]; intros ds H e de He Hd; [contradiction|]. cbn in H.
  destruct (derived_expr p) as [a|] eqn:Ea; [|discriminate]. destruct (derived_preds ps) as [b|] eqn:Eb; [|discriminate].
  inversion H; subst. destruct He as [->|He].
  - rewrite Ea in Hd. inversion Hd; subst. apply incl_appl, incl_refl.
  - apply incl_appr. eapply IH; eauto.
Qed.

Lemma consistent_readback m ds : consistent m ds = true -> forall d, In d ds -> readback m (built_attrs m ds) d.
Proof.
  unfold consistent. rewrite forallb_forall. intros H d Hd. specialize (H d Hd).
  destruct (get_attr (key_of m d) (snd (fst d)) (built_attrs m ds)) as [v|] eqn:E; [|discriminate].
  exists v. split; [exact E|]. apply str_eqb_eq. exact H.
Qed.

Lemma new_matches m t0 p l ps ds :
  step_good0 m (LocationStep AxChild (NameMatchTest p l) ps) = true -> derived_preds ps = Some ds ->
  smatch m p l ps (new_node m t0 p l ds) = true.
Proof.
  unfold step_good0. intros G Hd. rewrite Hd in G. repeat (apply andb_prop in G as [G ?]).
  unfold smatch, name_ok, new_node. cbn [ipayload]. rewrite !str_eqb_refl. cbn [andb].
  apply forallb_forall. intros e He. rewrite forallb_forall in G, H0.
  destruct (loc_expr_derived e (G e He)) as (de & Hde).
  eapply (pred_true m _ l (built_attrs m ds)); [apply G; exact He|apply H0; exact He|exact Hde|].
  intros d Hin. apply consistent_readback; [assumption|]. eapply derived_preds_incl; eauto.
Qed.

(* ================================================================ C15_finds: the creation branch *)
Lemma sel_member_true (f : itree -> bool) i0 kids j k : In (j, k) (sel f i0 kids) -> f k = true.
Proof. unfold sel. intro H. apply filter_In in H as [_ H]. exact H. Qed.

(* rewriting with an equation about d_step up to conversion (nd / stream are definitions) *)
Ltac rw_step_in H E :=
  match type of E with _ = ?rhs =>
    match type of H with context [d_step ?a ?b ?c ?d] =>
      replace (d_step a b c d) with rhs in H by (first [exact E | symmetry; exact E]) end end.
Ltac rw_step E :=
  match type of E with _ = ?rhs =>
    match goal with |- context [d_step ?a ?b ?c ?d] =>
      replace (d_step a b c d) with rhs by (first [exact E | symmetry; exact E]) end end.

Ltac rw_vis_in H E :=
  match type of E with _ = ?rhs =>
    match type of H with context [visible_from ?v ?p ?l] => replace (visible_from v p l) with rhs in H by (symmetry; exact E) end end.
Ltac rw_vis E :=
  match type of E with _ = ?rhs =>
    match goal with |- context [visible_from ?v ?p ?l] => replace (visible_from v p l) with rhs by (symmetry; exact E) end end.
(* under an ambient filter that lets tag nodes through, the candidates of an accepted step are all visible *)
Lemma vis_sel vis m pr l ps pos kids : tags_visible vis ->
  visible_from vis pos (map (fun ik : nat * itree => (pos ++ [fst ik], snd ik)) (sel (smatch m pr l ps) 0 kids))
  = map (fun ik : nat * itree => (pos ++ [fst ik], snd ik)) (sel (smatch m pr l ps) 0 kids).
Proof.
  intro Hv. unfold visible_from. destruct pos; [reflexivity|].
  apply filter_all_true. intros x Hx. apply in_map_iff in Hx as ([i k] & <- & Hin). cbn [snd].
  apply Hv. apply sel_member_true in Hin. apply smatch_tag in Hin. exact Hin.
Qed.
Lemma visible_from_nil vis pos : visible_from vis pos [] = [].
Proof. destruct pos; reflexivity. Qed.
Lemma visible_from_incl vis pos l x : In x (visible_from vis pos l) -> In x l.
Proof. unfold visible_from. destruct pos; [auto|]. intro H. apply filter_In in H. tauto. Qed.

Lemma create_finds vis m D : forall ss pos t0 t' p, tags_visible vis ->
  forallb (step_good0 m) ss = true -> forallb (unreserved m) ss = true -> is_tag_t t0 = true -> create_in vis m ss pos t0 = COk t' p ->
  exists sub q', fold_left (fun acc s => d_step D m s acc) ss ([(pos, t')], None) = ([(p, sub)], None) /\ p = pos ++ q'.
Proof.
  induction ss as [|s r IH]; intros pos t0 t' p Hv G U Ht H.
  - cbn in H. inversion H; subst. exists t', []. rewrite app_nil_r. split; reflexivity.
  - cbn [forallb] in G. apply andb_prop in G as [Gs Gr]. cbn [forallb] in U. apply andb_prop in U as [Us Ur].
    destruct s as [a t ps]. destruct a; try discriminate Gs. destruct t as [pr l| | |]; try discriminate Gs.
    cbn [create_in] in H. pose proof (good_step_single t0 m pr l ps (pos, t0) Gs) as E0. rewrite children_filter in E0.
    rw_step_in H E0. clear E0. cbn beta iota in H. pose proof (vis_sel vis m pr l ps pos (tkids t0) Hv) as Ev. rw_vis_in H Ev. clear Ev.
    destruct (sel (smatch m pr l ps) 0 (tkids t0)) as [|[j k] [|? ?]] eqn:ES; cbn [map fst snd] in H; [| |discriminate H].
    + (* no candidate: a new element *)
      destruct pos as [|a0 pos']; [discriminate H|].
      destruct (derived_preds ps) as [ds|] eqn:Ed; [|discriminate H]. use_unreserved Us Ed H.
      destruct (create_in vis m r ((a0 :: pos') ++ [insert_index vis (tkids t0)]) (new_node m t0 pr l ds)) as [n' p'|n' f] eqn:Ec;
        [|discriminate H].
      inversion H; subst; clear H.
      pose proof (create_in_payload vis m r ((a0 :: pos') ++ [insert_index vis (tkids t0)]) (new_node m t0 pr l ds)) as Hp.
      rewrite Ec in Hp.
      destruct (IH _ (new_node m t0 pr l ds) _ _ Hv Gr Ur eq_refl Ec) as (sub & q' & Hf & Hq).
      exists sub, (insert_index vis (tkids t0) :: q'). split; [|rewrite Hq, <- app_assoc; reflexivity].
      cbn [fold_left].
      pose proof (good_step_single D m pr l ps (a0 :: pos', insert_kid t0 (insert_index vis (tkids t0)) n') Gs) as E1.
      rewrite children_filter, (tkids_insert_kid _ _ _ Ht) in E1.
      rewrite (sel_insert (smatch m pr l ps) (tkids t0) (insert_index vis (tkids t0)) n') in E1.
      * cbn [map fst snd] in E1. rw_step E1. exact Hf.
      * apply (sel_nil_inv _ _ 0). exact ES.
      * rewrite (smatch_payload m pr l ps n' (new_node m t0 pr l ds) Hp). apply new_matches; assumption.
      * apply insert_index_le.
    + (* one candidate: go down *)
      destruct (create_in vis m r (pos ++ [j]) k) as [k' p'|k' f] eqn:Ec; [|discriminate H].
      inversion H; subst; clear H. rewrite last_last.
      assert (Fk : smatch m pr l ps k = true) by (apply (sel_member_true _ 0 (tkids t0) j); rewrite ES; left; reflexivity).
      pose proof (create_in_payload vis m r (pos ++ [j]) k) as Hp. rewrite Ec in Hp.
      assert (Fk' : smatch m pr l ps k' = true) by (rewrite (smatch_payload m pr l ps k' k Hp); exact Fk).
      destruct (sel_update _ _ _ _ _ k' ES Fk') as (i & Hj & Hn & Hs). cbn in Hj. subst j.
      destruct (IH _ _ _ _ Hv Gr Ur (smatch_tag _ _ _ _ _ Fk) Ec) as (sub & q' & Hf & Hq).
      exists sub, (i :: q'). split; [|rewrite Hq, <- app_assoc; reflexivity].
      cbn [fold_left].
      pose proof (good_step_single D m pr l ps (pos, set_kid t0 i k') Gs) as E1.
      rewrite children_filter, tkids_set_kid, Hs in E1. cbn [map fst snd] in E1. rw_step E1. exact Hf.
Qed.

(* ================================================================ from create_in to foc *)
Lemma nth_error_update_nth {A} (f : A -> A) : forall l i x, nth_error l i = Some x -> nth_error (update_nth f i l) i = Some (f x).
Proof. induction l as [|y l IH]; intros [|i] x H; cbn in *; try discriminate; [inversion H; reflexivity|auto]. Qed.

Lemma subtree_replace_at : forall q t t0 new, subtree t q = Some t0 -> subtree (replace_at t q new) q = Some new.
Proof.
  induction q as [|j q IH]; intros t t0 new H; [reflexivity|]. cbn in H |- *.
  destruct t as [i p kids]. destruct p; cbn in H |- *; try (destruct j; discriminate H).
  destruct (nth_error kids j) as [k|] eqn:E; [|discriminate H].
  rewrite (nth_error_update_nth _ _ _ _ E). eapply IH; eauto.
Qed.

Lemma good0_loc m s : step_good0 m s = true -> loc_step s = true.
Proof.
  destruct s as [a t ps]. destruct a; try discriminate. destruct t as [pr l| | |]; try discriminate. cbn. intro G.
  do 5 (apply andb_prop in G as [G _]). exact G.
Qed.
Lemma precheck_unreserved m : forall ss, forallb loc_step ss = true -> pre_check m ss = None -> forallb (unreserved m) ss = true.
Proof.
  induction ss as [|s ss IH]; intros G H; [reflexivity|]. cbn [forallb] in G. apply andb_prop in G as [Gs Gr].
  destruct s as [a t ps]. destruct a; try discriminate Gs. destruct t as [pr l| | |]; try discriminate Gs.
  cbn [pre_check] in H. cbn [forallb unreserved]. destruct (derived_preds ps) as [ds|]; [|discriminate H].
  destruct (prefixes_declared m pr ds); [|discriminate H]. destruct (existsb (reserved_attr m) ds); [discriminate H|].
  cbn. apply IH; assumption.
Qed.
Lemma good_loc_all m ss : forallb (step_good0 m) ss = true -> forallb loc_step ss = true.
Proof. rewrite !forallb_forall. intros H s Hs. eapply good0_loc. apply H. exact Hs. Qed.

Lemma all_visible : tags_visible all_vis.
Proof. intros t _. reflexivity. Qed.

Definition ctx_nd (root : itree) (ctx : npath) : nd := (ctx, opt_default (docnode root) (subtree (docnode root) ctx)).

(* relative paths *)
Lemma foc_finds_relative vis root m ss q t0 t' p :
  forallb (step_good m) ss = true -> subtree root q = Some t0 -> is_tag_t t0 = true ->
  foc vis root m m [LocationPath false ss] (0 :: q) = FocOk t' p ->
  exists n, eval (docnode t') m [LocationPath false ss] (ctx_nd t' (0 :: q)) = Ok [n] /\ fst n = p.
Proof.
  intros G Hs Ht. pose proof all_visible as Hv. unfold foc.
  destruct (negb (locatable [LocationPath false ss])); [discriminate|].
  assert (Ec : ctx_nd root (0 :: q) = (0 :: q, t0)) by (unfold ctx_nd; cbn; rewrite Hs; reflexivity).
  fold (ctx_nd root (0 :: q)).
  destruct (eval (docnode root) m [LocationPath false ss] (ctx_nd root (0 :: q))) as [[|x [|y l]]|f] eqn:Ev; try discriminate.
  - (* creation *)
    rewrite Hs. cbn [opt_default]. destruct (pre_check m ss) eqn:Hpc; [discriminate|].
    pose proof (precheck_unreserved m ss (good_loc_all m ss G) Hpc) as U.
    destruct (create_in all_vis m ss (0 :: q) t0) as [t0' p'|t0' f] eqn:Ecr; [|discriminate]. intro H. inversion H; subst; clear H.
    destruct (create_finds all_vis m (docnode (replace_at root q t0')) ss (0 :: q) t0 t0' p Hv G U Ht Ecr) as (sub & q' & Hf & Hq).
    exists (p, sub). split; [|reflexivity].
    assert (Ec' : ctx_nd (replace_at root q t0') (0 :: q) = (0 :: q, t0')).
    { unfold ctx_nd. cbn. rewrite (subtree_replace_at q root t0 t0' Hs). reflexivity. }
    rewrite Ec'. unfold eval. cbn [d_paths d_path].
    match goal with |- context [fold_left ?F ss ?I] => replace (fold_left F ss I) with ([(p, sub)], @None fault) by (symmetry; exact Hf) end.
    cbn [app existsb is_doc fst orb]. rewrite Hq. cbn. reflexivity.
  - (* fetched *)
    intro H. inversion H; subst. exists x. split; [exact Ev|reflexivity].
Qed.

(* absolute paths: the walk starts at the _DocumentNode; with no matching root there is nothing to create *)
Lemma sel_doc f root : sel f 0 (tkids (docnode root)) = if f root then [(0, root)] else [].
Proof. unfold sel. cbn. destruct (f root); reflexivity. Qed.

Lemma foc_finds_absolute vis root m s r ctx t' p :
  forallb (step_good m) (s :: r) = true ->
  foc vis root m m [LocationPath true (s :: r)] ctx = FocOk t' p ->
  exists n, eval (docnode t') m [LocationPath true (s :: r)] (ctx_nd t' ctx) = Ok [n] /\ fst n = p.
Proof.
  intros G. pose proof all_visible as Hv. unfold foc.
  destruct (negb (locatable [LocationPath true (s :: r)])); [discriminate|].
  fold (ctx_nd root ctx).
  destruct (eval (docnode root) m [LocationPath true (s :: r)] (ctx_nd root ctx)) as [[|x [|y l]]|f] eqn:Ev; try discriminate.
  - destruct (pre_check m (s :: r)) eqn:Hpc; [discriminate|].
    pose proof (precheck_unreserved m (s :: r) (good_loc_all m _ G) Hpc) as U.
    cbn [forallb] in G. apply andb_prop in G as [Gs Gr]. cbn [forallb] in U. apply andb_prop in U as [Us Ur].
    destruct s as [a t ps]. destruct a; try discriminate Gs. destruct t as [pr l| | |]; try discriminate Gs.
    cbn [create_in].
    pose proof (good_step_single (docnode root) m pr l ps ([], docnode root) Gs) as E0.
    rewrite children_filter, sel_doc in E0.
    rw_step E0. cbn beta iota. cbn [visible_from].
    destruct (smatch m pr l ps root) eqn:Fr; cbn [map fst snd app]; [|discriminate].
    destruct (create_in all_vis m r [0] root) as [k' p'|k' f] eqn:Ecr; [|discriminate]. intro H. inversion H; subst; clear H.
    cbn [last set_kid docnode update_nth doc_root tkids].
    destruct (create_finds all_vis m (docnode k') r [0] root k' p Hv Gr Ur (smatch_tag _ _ _ _ _ Fr) Ecr) as (sub & q' & Hf & Hq).
    exists (p, sub). split; [|reflexivity].
    pose proof (create_in_payload all_vis m r [0] root) as Hp. rewrite Ecr in Hp.
    pose proof (good_step_single (docnode k') m pr l ps ([], docnode k') Gs) as E1.
    rewrite children_filter, sel_doc, (smatch_payload m pr l ps k' root Hp), Fr in E1. cbn [map fst snd app] in E1.
    unfold eval. cbn [d_paths d_path fold_left].
    rw_step E1.
    match goal with |- context [fold_left ?F r ?I] => replace (fold_left F r I) with ([(p, sub)], @None fault) by (symmetry; exact Hf) end.
    cbn [app existsb is_doc fst orb]. rewrite Hq. cbn. reflexivity.
  - intro H. inversion H; subst. exists x. split; [exact Ev|reflexivity].
Qed.

(* idempotence follows from `finds`: the second call is a fetch *)
Lemma foc_idem vis t' m e ctx n :
  locatable e = true -> eval (docnode t') m e (ctx_nd t' ctx) = Ok [n] -> foc vis t' m m e ctx = FocOk t' (fst n).
Proof. intros. apply foc_fetches; assumption. Qed.

(* ================================================================ no fault after a creation; a fault leaves the tree unchanged *)
Definition declared_pfx (m : nsmap) (p : str) : bool := null p || match ns_get m p with Some _ => true | None => false end.
Lemma bound_derived m e : loc_expr e = true -> bound m e = true ->
  forall de, derived_expr e = Some de -> forallb (fun d => declared_pfx m (fst (fst d))) de = true.
Proof.
  induction e as [v|p a|p a|o x y IHx IHy|name args _] using expr_ind'; cbn [loc_expr]; try discriminate.
  intros Hl Hb de Hd. destruct o; try discriminate.
  - destruct x as [[s|n]|p a|p a|? ? ?|? ?]; try discriminate;
      destruct y as [[s'|n']|p' a'|p' a'|? ? ?|? ?]; try discriminate; cbn in Hd, Hb; inversion Hd; subst; cbn;
      rewrite andb_true_r; unfold declared_pfx.
    + destruct p' as [q|]; cbn in Hb |- *; [|reflexivity]. destruct (ns_get m q); [apply orb_true_r|discriminate].
    + rewrite andb_true_r in Hb. destruct p as [q|]; cbn in Hb |- *; [|reflexivity]. destruct (ns_get m q); [apply orb_true_r|discriminate].
  - apply andb_prop in Hl as [L1 L2]. cbn [bound] in Hb. apply andb_prop in Hb as [B1 B2].
    cbn [derived_expr] in Hd. destruct (derived_expr x) as [dx|] eqn:Ex; [|discriminate].
    destruct (derived_expr y) as [dy|] eqn:Ey; [|discriminate]. inversion Hd; subst.
    rewrite forallb_app, (IHx L1 B1 dx eq_refl), (IHy L2 B2 dy eq_refl). reflexivity.
Qed.
Lemma bound_derived_preds m ps : forallb loc_expr ps = true -> forallb (bound m) ps = true ->
  forall ds, derived_preds ps = Some ds -> forallb (fun d => declared_pfx m (fst (fst d))) ds = true.
Proof.
  induction ps as [|p ps IH]; cbn; intros L B ds H; [inversion H; reflexivity|].
  apply andb_prop in L as [L1 L2]. apply andb_prop in B as [B1 B2].
  destruct (derived_expr p) as [a|] eqn:Ea; [|discriminate]. destruct (derived_preds ps) as [b|] eqn:Eb; [|discriminate].
  inversion H; subst. rewrite forallb_app, (bound_derived m p L1 B1 a Ea), (IH L2 B2 b eq_refl). reflexivity.
Qed.
Lemma step_good0_inv m pr l ps : step_good0 m (LocationStep AxChild (NameMatchTest pr l) ps) = true ->
  forallb loc_expr ps = true /\ pfx_ok m pr = true /\ pfx_wf pr = true /\ forallb (bound m) ps = true /\
  forallb attr_pfx_wf ps = true /\ exists ds, derived_preds ps = Some ds /\ consistent m ds = true.
Proof.
  unfold step_good0. intro G. apply andb_prop in G as [G G6]. apply andb_prop in G as [G G5]. apply andb_prop in G as [G G4].
  apply andb_prop in G as [G G3]. apply andb_prop in G as [G1 G2]. repeat split; auto.
  destruct (derived_preds ps) as [ds|]; [eauto|discriminate].
Qed.

Lemma good_declared m pr l ps ds :
  step_good0 m (LocationStep AxChild (NameMatchTest pr l) ps) = true -> derived_preds ps = Some ds ->
  prefixes_declared m pr ds = true.
Proof.
  intros G Hd. destruct (step_good0_inv m pr l ps G) as (G1 & G2 & G3 & G4 & G5 & _).
  unfold prefixes_declared. cbn [forallb]. apply andb_true_intro. split.
  - unfold pfx_ok in G2. destruct pr as [q|]; cbn; [|reflexivity]. destruct (ns_get m q); [apply orb_true_r|discriminate G2].
  - rewrite forallb_forall. intros p Hp. apply in_map_iff in Hp as (d & <- & Hin).
    pose proof (bound_derived_preds m ps G1 G4 ds Hd) as F. rewrite forallb_forall in F. exact (F d Hin).
Qed.

Lemma good_derived m pr l ps : step_good0 m (LocationStep AxChild (NameMatchTest pr l) ps) = true ->
  exists ds, derived_preds ps = Some ds.
Proof. unfold step_good0. intro G. destruct (derived_preds ps); [eauto|]. rewrite !andb_false_r in G. discriminate. Qed.

Lemma tkids_new_node m t0 pr l ds : tkids (new_node m t0 pr l ds) = [].
Proof. reflexivity. Qed.

Lemma update_nth_same {A} (f : A -> A) : forall l i x, nth_error l i = Some x -> f x = x -> update_nth f i l = l.
Proof. induction l as [|y l IH]; intros [|i] x H E; cbn in *; try discriminate; [inversion H; subst; rewrite E; reflexivity|f_equal; eauto]. Qed.
Lemma set_kid_same t i k : nth_error (tkids t) i = Some k -> set_kid t i k = t.
Proof.
  destruct t as [id p kids]. destruct p; cbn; try (destruct i; discriminate). intro H.
  rewrite (update_nth_same (fun _ : itree => k) kids i k H eq_refl). reflexivity.
Qed.


(* ================================================================ C15_minimal *)
(* a chain of new elements: each has no child or exactly one, which is again such a chain *)
Inductive chain : itree -> Prop :=
| chain_leaf id a b attrs : chain (INode id (PTag a b attrs) [])
| chain_one id a b attrs k : chain k -> chain (INode id (PTag a b attrs) [k]).
(* t' is t, or t with ONE chain inserted as a child of one of its elements; every other node, in place *)
Inductive grown : itree -> itree -> Prop :=
| grown_same t : grown t t
| grown_insert t idx c : is_tag_t t = true -> idx <= length (tkids t) -> chain c -> grown t (insert_kid t idx c)
| grown_down t i k k' : nth_error (tkids t) i = Some k -> grown k k' -> grown t (set_kid t i k').

Lemma chain_result vis m : forall r pos n n' p, forallb (step_good0 m) r = true -> forallb (unreserved m) r = true -> tkids n = [] -> is_tag_t n = true -> pos <> [] ->
  create_in vis m r pos n = COk n' p -> chain n'.
Proof.
  induction r as [|s r IH]; intros pos n n' p G U Hk Ht Hp H.
  - cbn in H. inversion H; subst. destruct n' as [id pl kids]. destruct pl; cbn in Ht, Hk; try discriminate. subst. constructor.
  - cbn [forallb] in G. apply andb_prop in G as [Gs Gr]. cbn [forallb] in U. apply andb_prop in U as [Us Ur].
    destruct s as [a t ps]. destruct a; try discriminate Gs. destruct t as [pr l| | |]; try discriminate Gs.
    cbn [create_in] in H. pose proof (good_step_single n m pr l ps (pos, n) Gs) as E0. rewrite children_filter, Hk in E0. cbn in E0.
    rw_step_in H E0. cbn beta iota in H. rewrite visible_from_nil in H. destruct pos as [|a0 pos']; [congruence|].
    destruct (derived_preds ps) as [ds|] eqn:Ed; [|discriminate H]. use_unreserved Us Ed H.
    destruct (create_in vis m r ((a0 :: pos') ++ [insert_index vis (tkids n)]) (new_node m n pr l ds)) as [n2 p2|n2 f] eqn:Ec; [|discriminate H].
    inversion H; subst; clear H.
    assert (C2 : chain n2).
    { apply (IH ((a0 :: pos') ++ [insert_index vis (tkids n)]) (new_node m n pr l ds) n2 p Gr Ur eq_refl eq_refl);
        [destruct pos'; discriminate|exact Ec]. }
    destruct n as [id pl kids]. destruct pl; cbn in Ht, Hk; try discriminate. subst kids.
    cbn. constructor. exact C2.
Qed.

Lemma create_grown vis m : forall ss pos t0 t' p, tags_visible vis -> forallb (step_good0 m) ss = true -> forallb (unreserved m) ss = true -> is_tag_t t0 = true ->
  create_in vis m ss pos t0 = COk t' p -> grown t0 t'.
Proof.
  induction ss as [|s r IH]; intros pos t0 t' p Hv G U Ht H; [cbn in H; inversion H; constructor|].
  cbn [forallb] in G. apply andb_prop in G as [Gs Gr]. cbn [forallb] in U. apply andb_prop in U as [Us Ur].
  destruct s as [a t ps]. destruct a; try discriminate Gs. destruct t as [pr l| | |]; try discriminate Gs.
  cbn [create_in] in H. pose proof (good_step_single t0 m pr l ps (pos, t0) Gs) as E0. rewrite children_filter in E0.
  rw_step_in H E0. clear E0. cbn beta iota in H. pose proof (vis_sel vis m pr l ps pos (tkids t0) Hv) as Ev. rw_vis_in H Ev. clear Ev.
  destruct (sel (smatch m pr l ps) 0 (tkids t0)) as [|[j k] [|? ?]] eqn:ES; cbn [map fst snd] in H; [| |discriminate H].
  - destruct pos as [|a0 pos']; [discriminate H|].
    destruct (derived_preds ps) as [ds|] eqn:Ed; [|discriminate H]. use_unreserved Us Ed H.
    destruct (create_in vis m r ((a0 :: pos') ++ [insert_index vis (tkids t0)]) (new_node m t0 pr l ds)) as [n' p'|n' f] eqn:Ec; [|discriminate H].
    inversion H; subst; clear H. apply grown_insert; [exact Ht|apply insert_index_le|].
    apply (chain_result vis m r ((a0 :: pos') ++ [insert_index vis (tkids t0)]) (new_node m t0 pr l ds) n' p Gr Ur eq_refl eq_refl);
      [destruct pos'; discriminate|exact Ec].
  - destruct (create_in vis m r (pos ++ [j]) k) as [k' p'|k' f] eqn:Ec; [|discriminate H]. inversion H; subst; clear H.
    rewrite last_last.
    assert (Fk : smatch m pr l ps k = true) by (apply (sel_member_true _ 0 (tkids t0) j); rewrite ES; left; reflexivity).
    destruct (sel_update _ _ _ _ _ k ES Fk) as (i & Hj & Hn & _). cbn in Hj. subst j.
    eapply grown_down; [exact Hn|]. eapply (IH _ _ _ _ Hv Gr Ur); [eapply smatch_tag; eauto|exact Ec].
Qed.

(* ================================================================ foc level: minimal, and faults change nothing *)
Lemma replace_at_same : forall q t t0, subtree t q = Some t0 -> replace_at t q t0 = t.
Proof.
  induction q as [|j q IH]; intros t t0 H; cbn in H |- *; [inversion H; reflexivity|].
  destruct t as [i p kids]. destruct p; cbn in H; try (destruct j; discriminate H).
  destruct (nth_error kids j) as [k|] eqn:E; [|discriminate H].
  rewrite (update_nth_same (fun k0 => replace_at k0 q t0) kids j k E (IH k t0 H)). reflexivity.
Qed.

Definition steps_good (m : nsmap) (e : xpath_expr) : bool :=
  match e with [LocationPath _ ss] => forallb (step_good0 m) ss && negb (null ss) | _ => false end.

(* what the tree is afterwards: the old tree, or the old tree with the subtree at the start node grown by one chain *)
Lemma foc_minimal vis root m ab ss q t0 t' p :
  forallb (step_good m) ss = true -> subtree root q = Some t0 -> is_tag_t t0 = true ->
  foc vis root m m [LocationPath ab ss] (0 :: q) = FocOk t' p ->
  t' = root \/ (ab = false /\ exists t0', grown t0 t0' /\ t' = replace_at root q t0') \/ (ab = true /\ grown root t').
Proof.
  intros G Hs Ht. pose proof all_visible as Hv. unfold foc. destruct (negb (locatable [LocationPath ab ss])); [discriminate|].
  destruct (eval _ _ _ _) as [[|x [|y l]]|f]; try discriminate.
  - destruct ab.
    + destruct (pre_check m ss) eqn:Hpc; [discriminate|].
      pose proof (precheck_unreserved m ss (good_loc_all m ss G) Hpc) as U.
      destruct ss as [|s r]; [cbn; intro H; inversion H; left; reflexivity|].
      cbn [forallb] in G. apply andb_prop in G as [Gs Gr]. cbn [forallb] in U. apply andb_prop in U as [Us Ur].
      destruct s as [a t ps]. destruct a; try discriminate Gs. destruct t as [pr l| | |]; try discriminate Gs.
      cbn [create_in].
      pose proof (good_step_single (docnode root) m pr l ps ([], docnode root) Gs) as E0. rewrite children_filter, sel_doc in E0.
      rw_step E0. cbn beta iota. cbn [visible_from]. destruct (smatch m pr l ps root) eqn:Fr; cbn [map fst snd app]; [|discriminate].
      destruct (create_in all_vis m r [0] root) as [k' p'|k' f] eqn:Ecr; [|discriminate]. intro H. inversion H; subst; clear H.
      right. right. split; [reflexivity|]. cbn. eapply (create_grown all_vis m r _ _ _ _ Hv Gr Ur); [eapply smatch_tag; eauto|exact Ecr].
    + rewrite Hs. cbn [opt_default]. destruct (pre_check m ss) eqn:Hpc; [discriminate|].
      pose proof (precheck_unreserved m ss (good_loc_all m ss G) Hpc) as U.
      destruct (create_in all_vis m ss (0 :: q) t0) as [t0' p'|t0' f] eqn:Ecr; [|discriminate]. intro H. inversion H; subst; clear H.
      right. left. split; [reflexivity|]. exists t0'. split; [|reflexivity]. eapply (create_grown all_vis m ss _ _ _ _ Hv G U Ht Ecr).
  - intro H. inversion H. left. reflexivity.
Qed.

(* ---- every exception leaves the tree as it was: for EVERY expression, mapping, filter and tree *)
Lemma apply_preds_nil m ps : apply_preds m ps [] = Ok [].
Proof. induction ps as [|p ps IH]; [reflexivity|]. cbn. exact IH. Qed.
Lemma childless_step D m t ps pos n : tkids n = [] -> d_step D m (LocationStep AxChild t ps) ([(pos, n)], None) = ([], None).
Proof.
  intro Hk. unfold d_step. cbn [fst snd collect d_step1 d_axis]. unfold children, children_rel. cbn [snd]. rewrite Hk. cbn.
  rewrite apply_preds_nil. reflexivity.
Qed.
Lemma loc_step_inv s : loc_step s = true -> exists pr l ps, s = LocationStep AxChild (NameMatchTest pr l) ps /\ forallb loc_expr ps = true.
Proof. destruct s as [a t ps]. destruct a; try discriminate. destruct t; try discriminate. cbn. eauto. Qed.

Lemma chain_no_fault_loc vis m : forall r pos n, forallb loc_step r = true -> forallb (unreserved m) r = true -> tkids n = [] -> pos <> [] ->
  exists n' p, create_in vis m r pos n = COk n' p.
Proof.
  induction r as [|s r IH]; intros pos n G U Hk Hp; [cbn; eauto|].
  cbn [forallb] in G. apply andb_prop in G as [Gs Gr]. cbn [forallb] in U. apply andb_prop in U as [Us Ur].
  destruct (loc_step_inv s Gs) as (pr & l & ps & -> & Lp).
  cbn [create_in]. pose proof (childless_step n m (NameMatchTest pr l) ps pos n Hk) as E0. rw_step E0. cbn beta iota. rewrite visible_from_nil.
  destruct pos as [|a0 pos']; [congruence|]. destruct (loc_preds_derived ps Lp) as (ds & Ed). rewrite Ed.
  unfold unreserved in Us. rewrite Ed in Us. apply negb_true_iff in Us. rewrite Us.
  destruct (IH ((a0 :: pos') ++ [insert_index vis (tkids n)]) (new_node m n pr l ds) Gr Ur eq_refl) as (n' & p & Hc).
  { destruct pos'; discriminate. }
  rewrite Hc. eauto.
Qed.

Lemma filter_test_incl m t : forall l l', filter_test m t l = Ok l' -> incl l' l.
Proof.
  induction l as [|c l IH]; intros l' H; cbn in H; [inversion H; apply incl_refl|].
  destruct (d_test m t c) as [b|]; [|discriminate]. cbn in H. destruct (filter_test m t l) as [r|]; [|discriminate].
  cbn in H. inversion H. destruct b; [apply incl_cons; [left; reflexivity|apply incl_tl; apply IH; reflexivity]|apply incl_tl; apply IH; reflexivity].
Qed.
Lemma filter_pred_incl m p size : forall cs pos l, filter_pred m p size pos cs = Ok l -> incl l cs.
Proof.
  induction cs as [|c cs IH]; intros pos l H; cbn in H; [inversion H; apply incl_refl|].
  destruct (d_expr m p c pos size) as [v|]; [|discriminate]. cbn in H.
  destruct (filter_pred m p size (pos + 1) cs) as [r|] eqn:E; [|discriminate]. cbn in H. inversion H.
  destruct (keep_py v pos); [apply incl_cons; [left; reflexivity|apply incl_tl; eapply IH; eauto]|apply incl_tl; eapply IH; eauto].
Qed.
Lemma apply_preds_incl m : forall ps cs l, apply_preds m ps cs = Ok l -> incl l cs.
Proof.
  induction ps as [|p ps IH]; intros cs l H; cbn in H; [inversion H; apply incl_refl|].
  destruct (filter_pred m p (N.of_nat (length cs)) 1 cs) as [r|] eqn:E; [|discriminate]. cbn in H.
  eapply incl_tran; [eapply IH; eauto|eapply filter_pred_incl; eauto].
Qed.
Lemma child_step_incl D m t ps n l o : d_step D m (LocationStep AxChild t ps) ([n], None) = (l, o) -> incl l (children n).
Proof.
  unfold d_step. cbn [fst snd collect d_step1 d_axis].
  destruct (filter_test m t (children n)) as [c|] eqn:E1; cbn [bind]; [|intro H; inversion H; intros x []].
  destruct (apply_preds m ps c) as [c'|] eqn:E2; [|intro H; inversion H; intros x []].
  rewrite app_nil_r. intro H. inversion H; subst. intros x Hx. apply dedup_subset in Hx.
  eapply filter_test_incl; eauto. eapply apply_preds_incl; eauto.
Qed.
Lemma number_from_nth {A} (l : list A) : forall i0 i x, In (i, x) (number_from i0 l) -> exists j, i = i0 + j /\ nth_error l j = Some x.
Proof.
  induction l as [|y l IH]; intros i0 i x H; cbn in H; [contradiction|]. destruct H as [H|H].
  - inversion H; subst. exists 0. split; [lia|reflexivity].
  - destruct (IH _ _ _ H) as (j & -> & Hn). exists (S j). split; [lia|exact Hn].
Qed.
Lemma children_In pos t0 x : In x (children (pos, t0)) -> exists i, fst x = pos ++ [i] /\ nth_error (tkids t0) i = Some (snd x).
Proof.
  unfold children, children_rel. cbn [fst snd]. intro H. apply in_map_iff in H as (y & <- & Hy).
  apply in_map_iff in Hy as ([i k] & <- & Hin). destruct (number_from_nth _ _ _ _ Hin) as (j & -> & Hn).
  exists j. cbn. auto.
Qed.

Lemma create_unchanged_loc vis m : forall ss pos t0 t' f,
  forallb loc_step ss = true -> forallb (unreserved m) ss = true -> create_in vis m ss pos t0 = CFault t' f -> t' = t0.
Proof.
  induction ss as [|s r IH]; intros pos t0 t' f G U H; [discriminate H|].
  cbn [forallb] in G. apply andb_prop in G as [Gs Gr]. cbn [forallb] in U. apply andb_prop in U as [Us Ur].
  destruct (loc_step_inv s Gs) as (pr & l & ps & -> & Lp).
  cbn [create_in] in H.
  destruct (d_step t0 m (LocationStep AxChild (NameMatchTest pr l) ps) ([(pos, t0)], None)) as [lst o] eqn:E.
  destruct o as [f0|]; [inversion H; reflexivity|].
  match type of H with context [visible_from ?v ?p ?l] => destruct (visible_from v p l) as [|x [|y lst']] eqn:Ef end; try (inversion H; reflexivity).
  - destruct pos as [|a0 pos']; [inversion H; reflexivity|].
    destruct (loc_preds_derived ps Lp) as (ds & Hd). rewrite Hd in H. use_unreserved Us Hd H.
    destruct (chain_no_fault_loc vis m r ((a0 :: pos') ++ [insert_index vis (tkids t0)]) (new_node m t0 pr l ds) Gr Ur eq_refl) as (n' & p & Hc).
    { destruct pos'; discriminate. }
    rewrite Hc in H. discriminate H.
  - destruct (create_in vis m r (fst x) (snd x)) as [k' p'|k' f'] eqn:Ec; [discriminate H|]. inversion H; subst; clear H.
    rewrite (IH _ _ _ _ Gr Ur Ec).
    assert (Hx : In x lst).
    { apply (visible_from_incl vis pos). rewrite Ef. left. reflexivity. }
    pose proof (child_step_incl _ _ _ _ _ _ _ E x Hx) as Hin.
    destruct (children_In pos t0 x Hin) as (i & Hp & Hn). rewrite Hp, last_last. apply set_kid_same. exact Hn.
Qed.

Lemma locatable_inv e : locatable e = true -> exists ab ss, e = [LocationPath ab ss] /\ forallb loc_step ss = true.
Proof. destruct e as [|[ab ss] [|? ?]]; cbn; try discriminate. eauto. Qed.

Lemma foc_fault_unchanged vis root me mc e q t0 t' f :
  subtree root q = Some t0 -> foc vis root me mc e (0 :: q) = FocFault t' f -> t' = root.
Proof.
  intros Hs. unfold foc. destruct (locatable e) eqn:L; cbn [negb]; [|intro H; inversion H; reflexivity].
  destruct (locatable_inv e L) as (ab & ss & -> & G).
  destruct (eval _ _ _ _) as [[|x [|y l]]|f0]; try (intro H; inversion H; reflexivity).
  destruct ab.
  - destruct (pre_check mc ss) eqn:Hpc; [intro H; inversion H; reflexivity|].
    pose proof (precheck_unreserved mc ss G Hpc) as U.
    destruct (create_in all_vis mc ss [] (docnode root)) as [D' p'|D' f'] eqn:Ecr; [discriminate|]. intro H. inversion H; subst; clear H.
    rewrite (create_unchanged_loc all_vis mc ss [] (docnode root) D' f G U Ecr). reflexivity.
  - rewrite Hs. cbn [opt_default]. destruct (pre_check mc ss) eqn:Hpc; [intro H; inversion H; reflexivity|].
    pose proof (precheck_unreserved mc ss G Hpc) as U.
    destruct (create_in all_vis mc ss (0 :: q) t0) as [t0' p'|t0' f'] eqn:Ecr; [discriminate|]. intro H. inversion H; subst; clear H.
    rewrite (create_unchanged_loc all_vis mc ss (0 :: q) t0 t0' f G U Ecr). apply replace_at_same. exact Hs.
Qed.
