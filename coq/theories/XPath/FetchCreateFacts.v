(* Lemmas for C15. *)
From Delb.Base Require Import PyStr PyStrFacts.
From Delb.Tree Require Import ATree ITree.
From Delb.XPath Require Import Ast Nav Eval FetchCreate.

Lemma foc_not_accepted vis root me mc e ctx :
  locatable e = false -> foc vis root me mc e ctx = FocFault root (FRejected ValueError).
Proof. intro H. unfold foc. rewrite H. reflexivity. Qed.

Lemma foc_ambiguous vis root me mc e ctx x y l :
  locatable e = true -> eval (docnode root) me e (ctx, opt_default (docnode root) (subtree (docnode root) ctx)) = Ok (x :: y :: l) ->
  foc vis root me mc e ctx = FocFault root (FRejected AmbiguousTreeError).
Proof. intros H E. unfold foc. rewrite H, E. reflexivity. Qed.

Lemma foc_fetches vis root me mc e ctx x :
  locatable e = true -> eval (docnode root) me e (ctx, opt_default (docnode root) (subtree (docnode root) ctx)) = Ok [x] ->
  foc vis root me mc e ctx = FocOk root (fst x).
Proof. intros H E. unfold foc. rewrite H, E. reflexivity. Qed.

Lemma foc_eval_fault vis root me mc e ctx f :
  locatable e = true -> eval (docnode root) me e (ctx, opt_default (docnode root) (subtree (docnode root) ctx)) = Fault f ->
  foc vis root me mc e ctx = FocFault root f.
Proof. intros H E. unfold foc. rewrite H, E. reflexivity. Qed.

(* accepted expressions have the documented shape: one path, child axis and name tests only *)
Lemma locatable_shape e : locatable e = true ->
  exists ab ss, e = [LocationPath ab ss] /\
    Forall (fun s => exists p l ps, s = LocationStep AxChild (NameMatchTest p l) ps /\ forallb loc_expr ps = true) ss.
Proof.
  destruct e as [|[ab ss] [|? ?]]; cbn; try discriminate. intro H. exists ab, ss. split; [reflexivity|].
  apply Forall_forall. intros s Hs. rewrite forallb_forall in H. specialize (H s Hs).
  destruct s as [a t ps]. destruct a; try discriminate. destruct t; try discriminate. eauto.
Qed.

(* a locatable predicate always has derived attributes (no InvalidCodePath on accepted expressions) *)
Lemma loc_expr_derived e : loc_expr e = true -> exists ds, derived_expr e = Some ds.
Proof.
  induction e as [v|p l|p l|o l r IHl IHr|name args _] using expr_ind'; cbn; try discriminate.
  destruct o; try discriminate.
  - destruct l as [[s|n]|p a|p a|? ? ?|? ?]; try discriminate;
      destruct r as [[s'|n']|p' a'|p' a'|? ? ?|? ?]; try discriminate; eauto.
  - intro H. apply andb_prop in H as [H1 H2]. destruct (IHl H1) as (a & ->). destruct (IHr H2) as (b & ->). eauto.
Qed.
Lemma loc_preds_derived ps : forallb loc_expr ps = true -> exists ds, derived_preds ps = Some ds.
Proof.
  induction ps as [|p ps IH]; cbn; [eauto|]. intro H. apply andb_prop in H as [H1 H2].
  destruct (loc_expr_derived p H1) as (a & ->). destruct (IH H2) as (b & ->). eauto.
Qed.
