(* Navigation over an id-carrying tree with a document node, as the XPath models use it.
   A node of a tree is referred to by its *position*: the list of child indexes from the document
   node ([] = the document node, [0] = the root of the tree); a node-set member `nd` carries the
   position together with the subtree found there, so payloads need no lookup.  Two members are the
   same node iff their positions are equal.  Definitions only.

   The in-scope default namespace of an element (lxml: `nsmap.get(None)`), which delb's attribute
   lookup consults (`TagAttributes._etree_key`), is carried in the attribute list under the reserved
   key (XMLNS_NS, []) -- U+0000 cannot occur in XML, so no real attribute has it.  All other attributes
   are under their *store* keys (plain `k` -> ("", k); `{ns}k` -> (ns, k)). *)
From Delb.Base Require Import PyStr.
From Delb.Tree Require Import ATree ITree.

Definition npath := list nat.
Definition nd := (npath * itree)%type.

Fixpoint path_eqb (a b : npath) : bool :=
  match a, b with
  | [], [] => true
  | x :: a', y :: b' => Nat.eqb x y && path_eqb a' b'
  | _, _ => false
  end.
Fixpoint is_prefix (p x : npath) : bool :=      (* p is a prefix of x: x is p or below p *)
  match p, x with
  | [], _ => true
  | a :: p', b :: x' => Nat.eqb a b && is_prefix p' x'
  | _ :: _, [] => false
  end.
(* document order on positions: a node before its descendants, siblings left to right *)
Fixpoint path_ltb (a b : npath) : bool :=
  match a, b with
  | [], [] => false
  | [], _ :: _ => true
  | _ :: _, [] => false
  | x :: a', y :: b' => Nat.ltb x y || (Nat.eqb x y && path_ltb a' b')
  end.
Fixpoint path_mem (p : npath) (l : list npath) : bool :=
  match l with [] => false | q :: r => path_eqb p q || path_mem p r end.

Definition XMLNS_NS : str := [0%N].
Definition payload_attrs (p : payload) : list attr := match p with PTag _ _ a => a | _ => [] end.
Definition in_scope_default (p : payload) : option str := get_attr XMLNS_NS [] (payload_attrs p).

(* children as delb and XPath see them: only tag nodes have any *)
Definition tkids (t : itree) : list itree :=
  match t with INode _ (PTag _ _ _) kids => kids | _ => [] end.

Definition docnode (root : itree) : itree := INode 0%N (PTag [] [] []) [root].
Definition is_doc (n : nd) : bool := null (fst n).
Definition is_tagnode (n : nd) : bool :=
  negb (is_doc n) && match ipayload (snd n) with PTag _ _ _ => true | _ => false end.

Fixpoint subtree (t : itree) (p : npath) : option itree :=
  match p with
  | [] => Some t
  | i :: q => match nth_error (tkids t) i with Some k => subtree k q | None => None end
  end.
Definition lookup (D : itree) (p : npath) : list nd :=
  match subtree D p with Some m => [(p, m)] | None => [] end.

Fixpoint number_from {A} (i : nat) (l : list A) : list (nat * A) :=
  match l with [] => [] | x :: r => (i, x) :: number_from (S i) r end.

Definition rebase (p : npath) (x : nd) : nd := (p ++ fst x, snd x).
Definition under (i : nat) (x : nd) : nd := (i :: fst x, snd x).

Definition children_rel (t : itree) : list nd := map (fun ik => ([fst ik], snd ik)) (number_from 0 (tkids t)).
Definition children (n : nd) : list nd := map (rebase (fst n)) (children_rel (snd n)).

(* descendants in document (pre-)order, positions relative to t *)
Definition desc_list (f : itree -> list nd) : nat -> list itree -> list nd :=
  fix go (i : nat) (l : list itree) : list nd :=
    match l with
    | [] => []
    | k :: r => ([i], k) :: map (under i) (f k) ++ go (S i) r
    end.
Fixpoint desc_rel (t : itree) : list nd :=
  match t with
  | INode _ (PTag _ _ _) kids => desc_list desc_rel 0 kids
  | _ => []
  end.
Definition descendants (n : nd) : list nd := map (rebase (fst n)) (desc_rel (snd n)).

(* proper prefixes of a position, shortest first *)
Fixpoint inits_proper (p : npath) : list npath :=
  match p with [] => [] | a :: q => [] :: map (cons a) (inits_proper q) end.
(* ancestors, nearest first; the last one is the document node *)
Definition ancestors (D : itree) (n : nd) : list nd := flat_map (lookup D) (rev (inits_proper (fst n))).
Definition parent (D : itree) (n : nd) : list nd :=
  match fst n with [] => [] | _ :: _ => lookup D (removelast (fst n)) end.

Definition sibling_index (n : nd) : nat := last (fst n) 0.
Definition following_siblings (D : itree) (n : nd) : list nd :=
  flat_map (fun par => skipn (S (sibling_index n)) (children par)) (parent D n).
Definition preceding_siblings (D : itree) (n : nd) : list nd :=     (* nearest first *)
  flat_map (fun par => rev (firstn (sibling_index n) (children par))) (parent D n).

(* every node of the document, the document node first, in document order *)
Definition all_nodes (D : itree) : list nd := ([], D) :: descendants ([], D).

Fixpoint after (p : npath) (l : list nd) : list nd :=
  match l with [] => [] | x :: r => if path_eqb (fst x) p then r else after p r end.
Fixpoint before (p : npath) (l : list nd) : list nd :=
  match l with [] => [] | x :: r => if path_eqb (fst x) p then [] else x :: before p r end.

(* keep the first occurrence of every position *)
Fixpoint dedup_aux (seen : list npath) (l : list nd) : list nd :=
  match l with
  | [] => []
  | x :: r => if path_mem (fst x) seen then dedup_aux seen r else x :: dedup_aux (fst x :: seen) r
  end.
Definition dedup := dedup_aux [].

(* namespaces argument of a query: prefix -> URI ("" is the default-namespace entry) *)
Definition nsmap := list (str * str).
Fixpoint ns_get (m : nsmap) (p : str) : option str :=
  match m with [] => None | (k, v) :: r => if str_eqb k p then Some v else ns_get r p end.

Definition opt_default {A} (d : A) (o : option A) : A := match o with Some x => x | None => d end.
