(* Decidable classes of expressions, stated on the token list, that contain every input on which
   the parser leaves through a crash site (one class per finding of findings.d/C16.json).
   Each is a superset of the inputs that crash at its site (an earlier XPathParsingError can
   pre-empt the crash); ParseFacts / the check tie site and class:

     1 unbalanced-closing-bracket   a `]` or `)` with no bracket open                 S_group_pop
     2 empty-location-step          a `/` or `//` outside brackets that is the last token of
                                    the expression or directly precedes `|`           S_step_all_tokens_last
     3 function-call-as-step        outside brackets: NAME ( ) with NAME not a node type test
                                                                                      S_step_node_type
     4 node-test-with-argument      outside brackets: NAME ( x.. with NAME other than
                                    processing-instruction                            S_step_pi_name
     5 operator-without-operand     inside brackets: or and = != <= < >= > next to an opening /
                                    closing bracket, a comma or another such operator  S_expr_operand
     6 empty-function-argument      a comma directly before `)`                       S_expr_empty
     7 number-too-long              a NUMBER token longer than sys.get_int_max_str_digits()
                                                                                      S_expr_int *)
From Coq Require Import List NArith Arith Bool.
From Delb.Base Require Import PyStr.
From Delb.XPath Require Import XBase Tok Ast Parse.
From Delb.Gen Require Import GenXPath.
Import ListNotations.

Definition kind_is (k : tkind) (t : token) : bool := tkind_eqb (t_kind t) k.

(* tokens with the bracket depth *before* them *)
Fixpoint with_depth (l : list token) (d : nat) : list (nat * token) :=
  match l with
  | [] => []
  | t :: r => (d, t) :: with_depth r (if is_opener t then S d else if is_closer t then pred d else d)
  end.

Fixpoint cls_unbalanced (l : list token) (d : nat) : bool :=
  match l with
  | [] => false
  | t :: r => if is_opener t then cls_unbalanced r (S d)
              else if is_closer t then (match d with O => true | S d' => cls_unbalanced r d' end)
              else cls_unbalanced r d
  end.

Definition is_slash (t : token) : bool := kind_is SLASH t || kind_is SLASH_SLASH t.

Fixpoint cls_empty_step (l : list (nat * token)) : bool :=
  match l with
  | [] => false
  | (d, t) :: r =>
      (Nat.eqb d 0 && is_slash t && match r with [] => true | (_, n) :: _ => kind_is PASEQ n end)
      || cls_empty_step r
  end.

Definition is_node_type_name (s : str) : bool :=
  match assoc s node_type_test_mapping with Some _ => true | None => false end.

Fixpoint cls_call_as_step (l : list (nat * token)) : bool :=
  match l with
  | (d, t) :: (((_, o) :: (_, c) :: _) as r) =>
      (Nat.eqb d 0 && kind_is NAME t && kind_is OPEN_PARENS o && kind_is CLOSE_PARENS c
       && negb (is_node_type_name (t_str t))) || cls_call_as_step r
  | _ :: r => cls_call_as_step r
  | [] => false
  end.

Fixpoint cls_test_with_argument (l : list (nat * token)) : bool :=
  match l with
  | (d, t) :: (((_, o) :: (_, c) :: _) as r) =>
      (Nat.eqb d 0 && kind_is NAME t && kind_is OPEN_PARENS o && negb (kind_is CLOSE_PARENS c)
       && negb (str_eqb (t_str t) pi_test_name)) || cls_test_with_argument r
  | _ :: r => cls_test_with_argument r
  | [] => false
  end.

Definition is_operator (t : token) : bool :=
  existsb (fun o => tkind_eqb (t_kind t) (fst o) && str_eqb (t_str t) (snd o)) operator_order.
Definition left_boundary (t : token) : bool := is_opener t || kind_is COMMA t || is_operator t.
Definition right_boundary (t : token) : bool := is_closer t || kind_is COMMA t || is_operator t.

Fixpoint cls_operand (prev : option token) (l : list (nat * token)) : bool :=
  match l with
  | [] => false
  | (d, t) :: r =>
      (Nat.ltb 0 d && is_operator t
       && ((match prev with None => true | Some p => left_boundary p end)
           || (match r with [] => true | (_, n) :: _ => right_boundary n end)))
      || cls_operand (Some t) r
  end.

Fixpoint cls_empty_argument (l : list token) : bool :=
  match l with
  | t :: ((n :: _) as r) => (kind_is COMMA t && kind_is CLOSE_PARENS n) || cls_empty_argument r
  | _ => false
  end.

Definition cls_number_too_long (l : list token) : bool :=
  existsb (fun t => kind_is NUMBER t && Nat.ltb int_max_str_digits (length (t_str t))) l.

Definition classes_of_tokens (l : list token) : list N :=
  let dl := with_depth l 0 in
  (if cls_unbalanced l 0 then [1%N] else [])
  ++ (if cls_empty_step dl then [2%N] else [])
  ++ (if cls_call_as_step dl then [3%N] else [])
  ++ (if cls_test_with_argument dl then [4%N] else [])
  ++ (if cls_operand None dl then [5%N] else [])
  ++ (if cls_empty_argument l then [6%N] else [])
  ++ (if cls_number_too_long l then [7%N] else []).

Definition classes_of (s : str) : list N :=
  match tokenize s with POk l => classes_of_tokens l | _ => [] end.

(* the class a crash site belongs to; 0 = no finding class (the site is meant to be unreachable) *)
Definition site_cls (c : site) : N :=
  match c with
  | S_group_pop => 1 | S_step_all_tokens_last => 2 | S_step_node_type => 3 | S_step_pi_name => 4
  | S_expr_operand => 5 | S_expr_empty => 6 | S_expr_int => 7 | _ => 0
  end%N.

(* the decidable guard of C16_total_partial: the expression is in none of the classes *)
Definition unclassified (s : str) : bool := null (classes_of s).
