(* Canonical encoding of XPath ASTs as number lists, so that an AST computed in Coq (the parser
   model, location_path, ...) can be compared with the object graph the real parser builds
   (harness/xpath_ast.py `enc_ast` computes the same list from _delb.xpath.ast objects).

   strings        enc_str s        = len :: code points            (Tree/Encode.v)
   option str     None -> [0]      Some s -> 1 :: enc_str s
   axis           0..10 in the order of the constructor list (alphabetical by generator name:
                  ancestor, ancestor_or_self, child, descendant, descendant_or_self, following,
                  following_sibling, parent, preceding, preceding_sibling, self); AxOther s -> 11 :: enc_str s
   node kind      TagNode 0, TextNode 1, CommentNode 2, ProcessingInstructionNode 3
   node test      NameMatchTest 0 :: opt prefix ++ str local | AnyNameTest 1 :: opt prefix
                  | NodeTypeTest 2 :: [kind] | ProcessingInstructionTest 3 :: str target
   value          str 0 :: enc_str | int 1 :: [n]
   operator       le 0, lt 1, ge 2, gt 3, eq 4, ne 5, and_ 6, or_ 7
   expr           AnyValue 0 :: value | AttributeValue 1 :: opt prefix ++ str local
                  | HasAttribute 2 :: opt prefix ++ str local | BooleanOperator 3 :: op :: left ++ right
                  | Function 4 :: str name ++ count :: arguments
   step           axis ++ test ++ count :: predicates
   path           (absolute ? 1 : 0) :: count :: steps
   expression     count :: paths *)
From Delb.Base Require Import PyStr.
From Delb.Tree Require Import ATree Encode.
From Delb.XPath Require Import Ast.

Definition enc_opt_str (o : option str) : list N :=
  match o with None => [0%N] | Some s => 1%N :: enc_str s end.

Definition enc_axis (a : axis) : list N :=
  match a with
  | AxAncestor => [0%N] | AxAncestorOrSelf => [1%N] | AxChild => [2%N] | AxDescendant => [3%N]
  | AxDescendantOrSelf => [4%N] | AxFollowing => [5%N] | AxFollowingSibling => [6%N] | AxParent => [7%N]
  | AxPreceding => [8%N] | AxPrecedingSibling => [9%N] | AxSelf => [10%N]
  | AxOther s => 11%N :: enc_str s
  end.

Definition enc_kind (k : node_kind) : N :=
  match k with KTagNode => 0%N | KTextNode => 1%N | KCommentNode => 2%N | KProcessingInstructionNode => 3%N end.

Definition enc_test (t : node_test) : list N :=
  match t with
  | NameMatchTest p l => 0%N :: enc_opt_str p ++ enc_str l
  | AnyNameTest p => 1%N :: enc_opt_str p
  | NodeTypeTest k => [2%N; enc_kind k]
  | ProcessingInstructionTest t => 3%N :: enc_str t
  end.

Definition enc_value (v : value) : list N :=
  match v with VStr s => 0%N :: enc_str s | VNum n => [1%N; n] end.

Definition enc_binop (o : binop) : N :=
  match o with OpLe => 0%N | OpLt => 1%N | OpGe => 2%N | OpGt => 3%N | OpEq => 4%N | OpNe => 5%N
             | OpAnd => 6%N | OpOr => 7%N end.

Fixpoint enc_pexpr (e : expr) : list N :=
  match e with
  | AnyValue v => 0%N :: enc_value v
  | AttributeValue p l => 1%N :: enc_opt_str p ++ enc_str l
  | HasAttribute p l => 2%N :: enc_opt_str p ++ enc_str l
  | BooleanOperator o l r => 3%N :: enc_binop o :: enc_pexpr l ++ enc_pexpr r
  | Function n args => 4%N :: enc_str n ++ N.of_nat (length args) :: flat_map enc_pexpr args
  end.

Definition enc_step (s : step) : list N :=
  match s with LocationStep a t ps => enc_axis a ++ enc_test t ++ enc_list enc_pexpr ps end.

Definition enc_path (p : path) : list N :=
  match p with LocationPath a ss => (if a then 1%N else 0%N) :: enc_list enc_step ss end.

Definition enc_expr (e : xpath_expr) : list N := enc_list enc_path e.
