(* Token trees (TokenTree = Sequence[Token | TokenTree]) and the primitives the generated parser
   helpers (Gen/GenXPathFns.v) are written with.  Definitions only. *)
From Coq Require Import List NArith Arith Bool.
From Delb.Base Require Import PyStr.
From Delb.XPath Require Import XBase Tok.
From Delb.Gen Require Import GenXPath.
Import ListNotations.

Inductive ttree := TT (t : token) | TG (l : list ttree).

(* isinstance(x, Token) *)
Definition is_token (x : ttree) : bool := match x with TT _ => true | TG _ => false end.
(* x.type / x.position: only meaningful (and only used by translated code) under is_token x = true *)
Definition tok_type (x : ttree) : tkind := match x with TT t => t_kind t | TG _ => STRING end.
Definition tok_pos (x : ttree) : nat := match x with TT t => t_pos t | TG _ => 0 end.

(* a TokenPattern element: a TokenType or None *)
Definition opt_tkind_eqb (a b : option tkind) : bool :=
  match a, b with Some x, Some y => tkind_eqb x y | None, None => true | _, _ => false end.
Definition is_none {A} (o : option A) : bool := match o with None => true | Some _ => false end.
