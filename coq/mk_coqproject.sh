#!/bin/sh
# regenerate _CoqProject from the files present (Gen files are created by translate/gen_all.py first)
cd "$(dirname "$0")"
{ echo "-Q theories Delb"; find theories -name '*.v' | LC_ALL=C sort; } > _CoqProject.new
if ! cmp -s _CoqProject.new _CoqProject 2>/dev/null; then mv _CoqProject.new _CoqProject; coq_makefile -f _CoqProject -o Makefile >/dev/null; else rm _CoqProject.new; fi
[ -f Makefile ] || coq_makefile -f _CoqProject -o Makefile >/dev/null
