From Coq Require Import List NArith Bool Lia.
Import ListNotations.
Require Import Base.

(* ---- facts about collapse on strings with whitespace padding ---- *)
Definition all_ws (s : str) : Prop := Forall (fun c => is_ws c = true) s.

Lemma collapse_aux_ws_prefix w s b : all_ws w ->
  collapse_aux b (w ++ s) = (if b then [] else if null w then [] else [SP]) ++ collapse_aux (b || negb (null w)) s.
Proof.
  intros Hw. revert b. induction Hw as [|c w Hc Hw IH]; intros b; cbn [app null].
  - destruct b; cbn; rewrite ?orb_false_r; reflexivity.
  - cbn [collapse_aux]. rewrite Hc. destruct b.
    + rewrite IH. cbn. reflexivity.
    + rewrite IH. cbn. reflexivity.
Qed.

(* a "core": non-empty, collapsed, no whitespace at either end *)
Definition core (k : str) : Prop := head_nows k /\ last_nows k /\ collapse k = k.

Lemma collapse_true_core k : head_nows k -> collapse_aux true k = collapse_aux false k.
Proof. destruct k as [|c k]; cbn; [tauto|]. intros ->. reflexivity. Qed.

Lemma collapse_aux_app_nows_last k rest b :
  last_nows k -> collapse_aux b (k ++ rest) = collapse_aux b k ++ collapse_aux false rest.
Proof.
  revert b. induction k as [|c k IH]; intros b Hl.
  - unfold last_nows in Hl. cbn in Hl. tauto.
  - destruct k as [|d k'].
    + unfold last_nows in Hl. cbn in Hl. cbn [app collapse_aux]. rewrite Hl. reflexivity.
    + assert (Hl' : last_nows (d :: k')).
      { unfold last_nows in *. cbn [rev] in *. destruct (rev k' ++ [d]) eqn:E; [destruct (rev k'); discriminate|]. cbn in *. exact Hl. }
      change ((c :: d :: k') ++ rest) with (c :: (d :: k') ++ rest). cbn [collapse_aux].
      destruct (is_ws c); destruct b; rewrite IH by exact Hl'; reflexivity.
Qed.

Lemma collapse_pad w1 k w2 : all_ws w1 -> all_ws w2 -> core k ->
  collapse (w1 ++ k ++ w2) = optsp (negb (null w1)) ++ k ++ optsp (negb (null w2)).
Proof.
  intros H1 H2 (Hh & Hl & Hc). unfold collapse. rewrite collapse_aux_ws_prefix by exact H1. cbn [orb].
  assert (E : collapse_aux (negb (null w1)) (k ++ w2) = k ++ optsp (negb (null w2))).
  { rewrite collapse_aux_app_nows_last by exact Hl.
    replace (collapse_aux (negb (null w1)) k) with k.
    2:{ destruct (negb (null w1)); [rewrite collapse_true_core by exact Hh|]; symmetry; exact Hc. }
    f_equal. rewrite <- (app_nil_r w2) at 1. rewrite collapse_aux_ws_prefix by exact H2. cbn. rewrite app_nil_r.
    destruct (null w2); reflexivity. }
  rewrite E. destruct (null w1); reflexivity.
Qed.

(* what the reducer does to padded text, via the spec proved equal to the generated rule table *)
Lemma spec_pad w1 k w2 f l : all_ws w1 -> all_ws w2 -> core k ->
  spec (w1 ++ k ++ w2) f l =
  (if f then [] else optsp (negb (null w1))) ++ k ++ (if l then [] else optsp (negb (null w2))).
Proof.
  intros H1 H2 Hk. unfold spec. rewrite (collapse_pad w1 k w2 H1 H2 Hk).
  destruct Hk as (Hh & Hl & _).
  assert (Hs : strip (optsp (negb (null w1)) ++ k ++ optsp (negb (null w2))) = k).
  { unfold strip. rewrite lstrip_optsp by exact Hh. apply rstrip_optsp0. exact Hl. }
  rewrite Hs. replace (null k) with false by (destruct k; [cbn in Hh; tauto|reflexivity]).
  rewrite !andb_false_r.
  destruct f, l; rewrite ?lstrip_optsp by exact Hh; rewrite ?rstrip_optsp by exact Hl; rewrite ?rstrip_optsp0 by exact Hl;
    rewrite ?app_nil_r; reflexivity.
Qed.

Lemma collapse_all_ws w : all_ws w -> collapse w = optsp (negb (null w)).
Proof.
  intros H. unfold collapse. rewrite <- (app_nil_r w) at 1. rewrite collapse_aux_ws_prefix by exact H.
  cbn. rewrite app_nil_r. destruct (null w); reflexivity.
Qed.
Lemma spec_ws_only w f l : all_ws w -> w <> [] ->
  spec w f l = if (f && l)%bool then [SP] else if (f || l)%bool then [] else [SP].
Proof.
  intros H Hn. unfold spec. rewrite collapse_all_ws by exact H.
  destruct w; [congruence|]. cbn [null negb optsp].
  assert (Hs : strip [SP] = []) by reflexivity. rewrite Hs. cbn [null]. rewrite andb_true_r.
  destruct f, l; reflexivity.
Qed.
Print Assumptions spec_pad.
Print Assumptions spec_ws_only.
