import random, sys, gc
gc.disable()
from delb import *
from _delb.nodes import TextNode, TagNode, CommentNode, ProcessingInstructionNode
import ser_model as M
import f6
def plain(r):
    with altered_default_filters():
        if isinstance(r, TagNode):
            return ("tag", r.namespace, r.local_name, [((a.namespace,a.local_name), a.value) for a in r.attributes.values()], [plain(c) for c in r.iterate_children()], r)
        if isinstance(r, TextNode): return ("text", r.content)
        if isinstance(r, CommentNode): return ("c", r.content)
        return ("pi", r.target, r.content)
def order(idx,node):
    r=node[5]
    return list({r.namespace} | {a.namespace for a in r.attributes.values()})
rnd=random.Random(int(sys.argv[2]) if len(sys.argv)>2 else 1)
N=int(sys.argv[1]) if len(sys.argv)>1 else 3000
bad={}; import collections; st=collections.Counter()
for i in range(N):
    src=f6.gen_src(rnd)
    try: d=Document(src)
    except Exception: continue
    m=f6.gen_map(rnd)
    try: real=("ok", d.root.serialize(namespaces=m))
    except Exception as e: real=("exc", type(e).__name__)
    try:
        t=plain(d.root)
        model=("ok", M.serialize(t, None if m is None else list(m.items()), order))
    except M.Crash as c: model=("exc", c.kind)
    except M.Rejected as c: model=("exc", str(c))
    except KeyError: model=("exc","KeyError")
    st[real[0]+(":"+real[1] if real[0]=="exc" else "")]+=1
    if real!=model: bad.setdefault((real[0],model[0]),[]).append((src,m,real,model))
print(dict(st))
for k,v in bad.items():
    v.sort(key=lambda x: len(x[0])); print(len(v),k); print("   ",v[0])
print("mismatches", sum(len(v) for v in bad.values()))
