From Coq Require Import List Arith Bool Lia.
Import ListNotations.
Definition nid := nat.
Definition str := list nat.
Inductive payload := PTag (name : str) | PText (s : str) | PComment (s : str).
Inductive tree := Node (id : nid) (p : payload) (kids : list tree).
Definition tid (t : tree) := match t with Node i _ _ => i end.

Record tobj := { t_id : nid; t_s : str }.
Definition chain := list tobj.
Inductive cel := CEl (id : nid) (p : payload) (data : chain) (kids : list (cel * chain)).
Definition cid (e : cel) := match e with CEl i _ _ _ => i end.

Definition atext (t : tobj) : tree := Node (t_id t) (PText (t_s t)) [].
Fixpoint abs (e : cel) : tree :=
  match e with
  | CEl i p data kids =>
      Node i p (map atext data ++
                flat_map (fun kt => match kt with (k, t) => abs k :: map atext t end) kids)
  end.

(* custom induction principle for the nested type *)
Section CelInd.
  Variable P : cel -> Prop.
  Hypothesis H : forall i p data kids, Forall (fun kt => P (fst kt)) kids -> P (CEl i p data kids).
  Fixpoint cel_ind' (e : cel) : P e :=
    match e with
    | CEl i p data kids =>
        H i p data kids
          ((fix go (l : list (cel * chain)) : Forall (fun kt => P (fst kt)) l :=
              match l with
              | [] => Forall_nil _
              | kt :: r => Forall_cons kt (cel_ind' (fst kt)) (go r)
              end) kids)
    end.
End CelInd.

(* concrete: _ElementWrappingNode._add_following_sibling, element/element branch *)
Definition ins_items (rec : cel -> cel) (x : nid) (n : cel) :=
  fix go (l : list (cel * chain)) : list (cel * chain) :=
    match l with
    | [] => []
    | (k, t) :: r =>
        if cid k =? x then (k, []) :: (n, t) :: r      (* old tail rebinds to the new node *)
        else (rec k, t) :: go r
    end.
Fixpoint c_ins (x : nid) (n : cel) (e : cel) {struct e} : cel :=
  match e with
  | CEl i p data kids => CEl i p data (ins_items (c_ins x n) x n kids)
  end.

(* spec: insert n right after the node with id x *)
Definition ins_trees (rec : tree -> tree) (x : nid) (n : tree) :=
  fix go (l : list tree) : list tree :=
    match l with
    | [] => []
    | k :: r => if tid k =? x then k :: n :: r else rec k :: go r
    end.
Fixpoint a_ins (x : nid) (n : tree) (t : tree) {struct t} : tree :=
  match t with
  | Node i p kids => Node i p (ins_trees (a_ins x n) x n kids)
  end.

Fixpoint text_ids (e : cel) : list nid :=
  match e with
  | CEl _ _ data kids =>
      map t_id data ++ flat_map (fun kt => match kt with (k, t) => text_ids k ++ map t_id t end) kids
  end.

Definition go_a x n := ins_trees (a_ins x n) x n.

Lemma go_a_texts x n (c : chain) rest :
  ~ In x (map t_id c) -> go_a x n (map atext c ++ rest) = map atext c ++ go_a x n rest.
Proof.
  unfold go_a. induction c as [|t c IH]; cbn [map app ins_trees]; [reflexivity|]. intros Hn. cbn [atext tid].
  destruct (Nat.eqb_spec (t_id t) x) as [E|E]; [exfalso; apply Hn; left; exact E|].
  f_equal. apply IH. intros Hin. apply Hn. right. exact Hin.
Qed.
Lemma tid_abs k : tid (abs k) = cid k. Proof. destruct k; reflexivity. Qed.

Theorem c_ins_refines x n e :
  ~ In x (text_ids e) -> abs (c_ins x n e) = a_ins x (abs n) (abs e).
Proof.
  induction e as [i p data kids IH] using cel_ind'. intros Hx. cbn [c_ins abs a_ins]. f_equal.
  cbn [text_ids] in Hx. rewrite in_app_iff in Hx.
  change (ins_trees (a_ins x (abs n)) x (abs n)) with (go_a x (abs n)).
  rewrite go_a_texts by tauto. f_equal.
  assert (Hk : ~ In x (flat_map (fun kt => match kt with (k, t) => text_ids k ++ map t_id t end) kids)) by tauto.
  clear Hx. induction kids as [|[k t] r IHr]; [reflexivity|].
  inversion IH as [|? ? IHk IHrest]; subst. cbn [fst] in IHk.
  cbn [flat_map] in Hk. rewrite !in_app_iff in Hk.
  cbn [flat_map ins_items]. unfold go_a at 1. cbn [ins_trees app]. fold (go_a x (abs n)). rewrite tid_abs.
  destruct (Nat.eqb_spec (cid k) x) as [E|E].
  - cbn [flat_map map app]. reflexivity.
  - cbn [flat_map]. rewrite IHk by tauto. cbn [app]. f_equal.
    rewrite go_a_texts by tauto. f_equal. apply IHr; [exact IHrest|tauto].
Qed.
Print Assumptions c_ins_refines.
