"""Blueprint of Ns/Namespaces.v, Ns/Prefixes.v, Xml/Plain.v: functional model of Namespaces normalisation,
Serializer._collect_prefixes and the plain serializer.  Trees are plain tuples:
 ("tag", ns, local, [((ans, alocal), value), ...], [kids])  ("text", s) ("c", s) ("pi", target, content)
`order(node_index)` gives the iteration order of the set {node.ns} | {attr ns} (hash dependent in CPython)."""
XML="http://www.w3.org/XML/1998/namespace"; XMLNS="http://www.w3.org/2000/xmlns/"
COMMON=[("fo","http://www.w3.org/1999/XSL/Format"),("mathml","http://www.w3.org/1998/Math/MathML"),("rdf","http://www.w3.org/1999/02/22-rdf-syntax-ns#"),("rdfs","http://www.w3.org/2000/01/rdf-schema#"),("sh","http://www.w3.org/ns/shacl#"),("skos","http://www.w3.org/2004/02/skos/core#"),("svg","http://www.w3.org/2000/svg"),("vxml","http://www.w3.org/2001/vxml"),("xforms","http://www.w3.org/2002/xforms/cr"),("xhtml","http://www.w3.org/1999/xhtml"),("xi","http://www.w3.org/2001/XInclude"),("xlink","http://www.w3.org/1999/xlink"),("xsd","http://www.w3.org/2001/XMLSchema"),("xsi","http://www.w3.org/2001/XMLSchema-instance"),("xsl","http://www.w3.org/1999/XSL/Transform")]
class Rejected(Exception): pass
class Crash(Exception):
    def __init__(s,k): s.kind=k
def normalize(decls):   # decls: list of (prefix|None, namespace) in dict order
    keys=[p for p,_ in decls]
    if None in keys and "" in keys: raise Rejected("ValueError")
    declared=[]; data=[("xml",XML),("xmlns",XMLNS)]
    def put(p,n):
        for i,(q,_) in enumerate(data):
            if q==p: data[i]=(p,n); return
        data.append((p,n))
    for p,n in decls:
        if p in ("xml","xmlns"): raise Rejected("ValueError")
        if p is None: p=""
        if n in (XML,XMLNS): raise Rejected("ValueError")
        if n in declared: raise Rejected("ValueError")
        declared.append(n); put(p,n)
    for p,n in COMMON:
        if n not in declared and all(q!=p for q,_ in data): data.append((p,n))
    inverse={}
    for p,n in data: inverse[n]=p          # later wins
    return data, inverse
def collect(root, decls, order):
    data,inverse=normalize(decls or [])
    values=[n for _,n in data]
    prefixes=[]    # assoc list ns -> prefix(with colon) in insertion order
    def has(ns): return any(k==ns for k,_ in prefixes)
    def setp(ns,p):
        for i,(k,_) in enumerate(prefixes):
            if k==ns: prefixes[i]=(ns,p); return
        prefixes.append((ns,p))
    def pvalues(): return [p for _,p in prefixes]
    def new_decl(ns):
        for i in range(2**16):
            p="ns%d:"%i
            if p not in pvalues(): setp(ns,p); return
        raise Crash("NotImplementedError")
    if root[1] not in values: setp(root[1],"")
    # BFS over tag nodes
    queue=[root]; idx=0
    bfs=[root]
    q=list(root[4])
    while q:
        n=q.pop(0)
        if n[0]=="tag": q.extend(n[4]); bfs.append(n)
    for idx,node in enumerate(bfs):
        for ns in order(idx,node):
            if has(ns): continue
            if not ns:
                for k,p in list(prefixes):
                    if p=="": new_decl(k); break
                setp("","")
                continue
            pre=inverse.get(ns or "")
            if pre is None: new_decl(ns); continue
            if pre=="" and "" in pvalues(): new_decl(ns); continue
            if len(pre):
                if pre+":" in pvalues(): raise Crash("AssertionError")
                setp(ns,pre+":")
            else:
                if "" in pvalues(): raise Crash("AssertionError")
                setp(ns,"")
    return prefixes
def esc(s, attr):
    out=s.replace("&","&amp;").replace(">","&gt;").replace("<","&lt;")
    return out.replace('"',"&quot;") if attr else out
def serialize(root, decls, order):
    prefixes=collect(root, decls, order)
    pm=dict(prefixes)
    out=[]
    def attrs_data(node):
        d=[]
        for (ans,al),v in sorted(node[3]):
            k=pm[ans]+al      # KeyError if namespace unknown
            d=[x for x in d if x[0]!=k]+[(k,'"%s"'%esc(v,True))] if any(x[0]==k for x in d) else d+[(k,'"%s"'%esc(v,True))]
        return d
    def tagout(node, ad):
        name=pm[node[1]]+node[2]
        out.append("<"+name)
        for k,v in ad: out.append(" %s=%s"%(k,v))
        if node[4]:
            out.append(">")
            for k in node[4]: nodeout(k)
            out.append("</%s>"%name)
        else: out.append("/>")
    def nodeout(n):
        if n[0]=="c": out.append("<!--%s-->"%n[1])
        elif n[0]=="pi": out.append("<?%s %s?>"%(n[1],n[2]))
        elif n[0]=="tag": tagout(n, attrs_data(n))
        elif n[0]=="text" and n[1]: out.append(esc(n[1],False))
        else: raise Crash("InvalidCodePath")
    decl={}
    for ns,p in prefixes: decl[p]=ns          # later wins (dict comprehension)
    ad=[]
    if "" in decl:
        dn=decl.pop("")
        if dn: ad.append(("xmlns",'"%s"'%dn))
    for p in sorted(x for x in decl if x[:-1] not in ("xml","xmlns")):
        ad.append(("xmlns:"+p[:-1], '"%s"'%decl[p]))
    for k,v in attrs_data(root):
        ad=[x for x in ad if x[0]!=k]+[(k,v)] if any(x[0]==k for x in ad) else ad+[(k,v)]
    tagout(root, ad)
    return "".join(out)
