"""Blueprint of Ws/Pretty.v and Ws/Wrap.v: functional re-statement of Serializer / PrettySerializer /
_LineFittingSerializer / TextWrappingSerializer / _LengthTrackingWriter over plain trees.
Node = dict(kind, ns, local, attrs [( (ns,local), value )], kids, parent, content/target)."""
import re
XML="http://www.w3.org/XML/1998/namespace"
def crunch(s): return re.sub(r"\s+"," ",s)
def esc(s, attr=False):
    out=s.replace("&","&amp;").replace(">","&gt;").replace("<","&lt;")
    return out.replace('"',"&quot;") if attr else out
class Crash(Exception):
    def __init__(s,k): s.kind=k
def index(n): return next(i for i,k in enumerate(n["parent"]["kids"]) if k is n)
def nxt(n):
    if n["parent"] is None: return None
    i=index(n); ks=n["parent"]["kids"]; return ks[i+1] if i+1<len(ks) else None
def prv(n):
    if n["parent"] is None: return None
    i=index(n); return n["parent"]["kids"][i-1] if i>0 else None
def following(n):
    # NodeBase.fetch_following under filter (): first child, else next sibling, else next sibling of an ancestor
    if n["kind"]=="tag" and n["kids"]: return n["kids"][0]
    c=n
    while c is not None:
        x=nxt(c)
        if x is not None: return x
        c=c["parent"]
    return None
def space_directive(n, default="default"):
    for (ns,l),v in n["attrs"]:
        if ns==XML and l=="space":
            return v if v in ("default","preserve") else default
    return default
def node_str(n):
    if n["kind"]=="c": return "<!--%s-->"%n["content"]
    return "<?%s %s?>"%(n["target"],n["content"])

class Writer:
    def __init__(s, tracking): s.out=[]; s.offset=0; s.preserve_space=False; s.tracking=tracking
    def __call__(s, data):
        if s.tracking:
            if not s.preserve_space and s.offset==0: data=data.lstrip("\n")
            if not data: return
            if data[-1]=="\n": s.offset=0
            else:
                i=data.rfind("\n")
                if i==-1: s.offset+=len(data)
                else: s.offset=len(data)-(i+1)
        s.out.append(data)

class Plain:
    def __init__(s, w, pm): s.w=w; s.pm=pm
    def attrs_data(s,node):
        d={}
        for (ns,l),v in sorted(node["attrs"]): d[s.pm[ns]+l]='"%s"'%esc(v,True)
        return d
    def handle_child_nodes(s,kids):
        for k in kids: s.serialize_node(k)
    def serialize_attributes(s,ad):
        for k,v in ad.items(): s.w(" %s=%s"%(k,v))
    def serialize_node(s,n):
        if n["kind"] in("c","pi"): s.w(node_str(n))
        elif n["kind"]=="tag": s.serialize_tag(n, s.attrs_data(n))
        elif n["kind"]=="text" and n["content"]: s.w(esc(n["content"]))
        else: raise Crash("InvalidCodePath")
    def serialize_tag(s,node,ad):
        kids=node["kids"]; name=s.pm[node["ns"]]+node["local"]
        s.w("<"+name)
        if ad: s.serialize_attributes(ad)
        if kids:
            s.w(">"); s.handle_child_nodes(kids); s.w("</%s>"%name)
        else: s.w("/>")
    def serialize_root(s, root, decl_attrs):
        ad=dict(decl_attrs); ad.update(s.attrs_data(root)); s.serialize_tag(root, ad)

class LineFitting(Plain):
    def __init__(s,w,pm): super().__init__(w,pm); s.space="default"
    def serialize_node(s,n):
        if n["kind"]=="text":
            if n["content"]:
                s.w(esc(crunch(n["content"])) if s.space=="default" else esc(n["content"]))
            return
        if n["kind"]=="tag":
            st=s.space; sp=space_directive(n, s.space)
            if sp!=st: s.space=sp; s.w.preserve_space = sp=="default"
        Plain.serialize_node(s,n)
        if n["kind"]=="tag" and sp!=st:
            s.space=st; s.w.preserve_space = st=="default"

class Pretty(Plain):
    def __init__(s,w,pm,ind,align):
        super().__init__(w,pm); s.ind=ind; s.align=align; s.level=0; s.root=None; s.unwritten=[]
        s.sps=Plain(w,pm)
    def handle_child_nodes(s,kids):
        if s.legit_before(kids[0]): s.w("\n")
        s.level+=1; s.serialize_child_nodes(kids); s.level-=1
        if s.ind and s.legit_after(kids[-1]): s.w(s.level*s.ind)
    def serialize_attributes(s,ad):
        if s.align and len(ad)>1:
            kw=max(len(k) for k in ad)
            for k,v in ad.items(): s.w("\n%s %s%s%s=%s"%(s.level*s.ind, s.ind, " "*(kw-len(k)), k, v))
            if s.ind: s.w("\n%s"%(s.level*s.ind))
        else: Plain.serialize_attributes(s,ad)
    def serialize_child_nodes(s,kids):
        for n in kids:
            if n["kind"]=="text":
                if n["content"]: s.unwritten.append(n)
            else: s.serialize_node(n)
        if s.unwritten: s.serialize_text()
    def serialize_node(s,n):
        if s.unwritten: s.serialize_text()
        if s.ind and s.legit_before(n): s.w(s.level*s.ind)
        Plain.serialize_node(s,n)
        if s.legit_after(n): s.w("\n")
    def serialize_root(s,root,decl_attrs):
        s.root=root; Plain.serialize_root(s,root,decl_attrs); s.root=None
    def serialize_tag(s,node,ad):
        if space_directive(node)=="preserve": s.sps.serialize_tag(node,ad)
        else: Plain.serialize_tag(s,node,ad)
    def normalize_text(s,t): return esc(crunch(t))
    def serialize_text(s):
        nodes=s.unwritten; content=s.normalize_text("".join(n["content"] for n in nodes))
        if content==" ": nodes.clear(); return
        if s.ind and s.legit_before(nodes[0]): content=s.level*s.ind+content.lstrip()
        if s.legit_after(nodes[-1]): content=content.rstrip()+"\n"
        assert content
        s.w(content); nodes.clear()
    def legit_after(s,n):
        if s.root is None or n is s.root: return False
        if n["parent"]["kids"][-1] is n: return True
        if n["kind"]=="text": return n["content"][-1].isspace()
        f=nxt(n)
        if f["kind"]=="text": return s.legit_before(f)
        return False
    def legit_before(s,n):
        if s.root is None or n is s.root: return False
        if index(n)==0: return True
        if n["kind"]=="text": return n["content"][0].isspace()
        p=prv(n)
        if p["kind"]=="text": return s.legit_after(p)
        return False

class Wrap(Pretty):
    def __init__(s,w,pm,ind,align,width):
        if width<1: raise Crash("ValueError")
        super().__init__(w,pm,ind,align); s.lfs=LineFitting(w,pm); s.width=width
    @property
    def available(s): return max(0, s.width-s.line_offset)
    @property
    def line_offset(s):
        return s.w.offset - s.level*len(s.ind) if s.w.offset else 0
    def fits(s,n): return s.required(n, s.available) is not None
    def required(s,n,up_to):
        if n["kind"]=="text": return s.required_text(n,up_to)
        if n["kind"] in("c","pi"):
            l=len(node_str(n)); return l if l<=up_to else None
        nl=len(n["local"])+len(s.pm[n["ns"]])
        used = 3+nl if len(n["kids"])==0 else 5+2*nl
        if used>up_to: return None
        a=s.required_attrs(n, up_to-used)
        if a is None: return None
        used+=a
        for k in n["kids"]:
            c=s.required(k, up_to-used)
            if c is None: return None
            used+=c
        f=s.required_following(n, up_to-used)
        if f is None: return None
        return used+f
    def required_attrs(s,n,up_to):
        r=0
        for (ns,l),v in n["attrs_store_order"]:
            r+=4+len(l)+len(s.pm[ns])+len(esc(v,True))
            if r>up_to: return None
        return r
    def required_following(s,n,up_to):
        if s.legit_after(n): return 0
        f=following(n)
        if f is None: return 0
        if f["kind"]!="text": return s.required(f,up_to)
        c=esc(f["content"]); l=c.find(" ")
        if l==-1: l=len(c)
        return l if l<=up_to else None
    def required_text(s,n,up_to):
        c=s.normalize_text(n["content"])
        if c.startswith(" ") and s.legit_before(n): c=c.lstrip()
        if c.endswith(" ") and s.legit_after(n): c=c.rstrip()
        return len(c) if len(c)<=up_to else None
    def serialize_appendable(s,n):
        assert n["kind"]!="text"
        if s.w.offset==0 and s.ind: s.w(s.level*s.ind)
        if n["kind"]=="tag":
            if space_directive(n)=="preserve": ser=s.sps; s.w.preserve_space=True
            else: ser=s.lfs
            ser.serialize_node(n); s.w.preserve_space=False
        else: s.w(node_str(n))
    def serialize_node(s,n):
        if s.unwritten: s.serialize_text()
        if s.fits(n):
            s.serialize_appendable(n)
            if ((not s.available) or (n is n["parent"]["kids"][-1])) and s.legit_after(n):
                s.w("\n"); return
        else:
            if s.line_offset>0 and s.legit_before(n):
                s.w("\n"); s.serialize_node(n); return
            if s.ind and s.w.offset==0 and s.legit_before(n): s.w(s.level*s.ind)
            if n["kind"]=="tag" and space_directive(n)=="preserve": s.w.preserve_space=True
            Plain.serialize_node(s,n)
            s.w.preserve_space=False
        if s.legit_after(n):
            f=following(n)
            if not (f is not None and s.fits(f)): s.w("\n")
    def serialize_tag(s,node,ad):
        if node is not s.root and s.fits(node): s.serialize_appendable(node)
        else: Pretty.serialize_tag(s,node,ad)
    def serialize_text(s):
        nodes=s.unwritten; content=s.normalize_text("".join(n["content"] for n in nodes)); last=nodes[-1]
        if s.available==len(content.rstrip()) and s.legit_after(last):
            s.w(content.rstrip()+"\n")
        elif s.available>len(content):
            if s.line_offset==0: content=s.level*s.ind+content.lstrip()
            cond = (last is last["parent"]["kids"][-1])
            if not cond:
                f=following(last)
                cond = f is not None and (s.legit_before(f) and s.required(f, s.available-len(content)) is None)
            if cond: content=content.rstrip()+"\n"
            s.w(content)
        elif content==" ": s.w("\n")
        else: s.text_over_lines(content)
        nodes.clear()
    def text_over_lines(s,content):
        lines=[]; nodes=s.unwritten
        if s.line_offset==0:
            if s.legit_before(nodes[0]): lines.append("")
            lines.extend(wrap_text(content.lstrip(), s.width))
        else:
            if content.startswith(" "): filling=" "+next(iter(wrap_text(content[1:], s.available-1)))
            else: filling=next(iter(wrap_text(content, s.available)))
            if not (len(filling)>s.available and s.legit_before(nodes[0])):
                s.w(filling); content=content[len(filling)+1:]
                if not content: return
            lines.append(""); lines.extend(wrap_text(content, s.width))
        if lines[-1].endswith(" ") and s.legit_after(nodes[-1]):
            fs=nxt(nodes[-1])
            if fs is not None and not s.required(fs, s.width-len(lines[-1])): lines.append("")
        s.consolidate(lines)
        prefix=s.level*s.ind
        for line in lines[:-1]:
            s.w("\n" if line=="" else "%s%s\n"%(prefix,line))
        if lines[-1]!="": s.w("%s%s"%(prefix,lines[-1]))
    def consolidate(s,lines):
        last=s.unwritten[-1]
        if lines[0]=="" and last is last["parent"]["kids"][-1] and s.legit_after(last): lines.append("")
        if s.line_offset==0 and lines[0]=="": lines.pop(0)
        if len(lines)>=2 and lines[-1]=="": lines[-2]=lines[-2].rstrip()
def wrap_text(text,width):
    out=[]
    while len(text)>width:
        i=text.rfind(" ",0,width+1)
        if i>-1: pass
        else:
            i=text.find(" ",width)
            if not i>0: out.append(text); return out
        out.append(text[:i]); text=text[i+1:]
    if text: out.append(text)
    return out
def run(root, pm, decl_attrs, fo):
    """fo = None | (align, ind, width)"""
    if fo is None:
        w=Writer(False); s=Plain(w,pm)
    else:
        align,ind,width=fo
        if ind and not ind.isspace(): raise Crash("ValueError")
        if width: w=Writer(True); s=Wrap(w,pm,ind,align,width)
        else: w=Writer(False); s=Pretty(w,pm,ind,align)
    s.serialize_root(root, decl_attrs)
    return "".join(w.out)
