import random, sys, gc, re
gc.disable()
from delb import *
from _delb.nodes import TextNode, TagNode, CommentNode, ProcessingInstructionNode
from lxml import etree
URIS=["u1","u2","u3"]
def shape(r):
    with altered_default_filters():
        if isinstance(r, TagNode):
            kids=[]; 
            for c in r.iterate_children():
                s=shape(c)
                if s[0]=="text":
                    if s[1]=="": continue
                    if kids and kids[-1][0]=="text": kids[-1]=("text", kids[-1][1]+s[1]); continue
                kids.append(s)
            return ("tag", r.local_name, r.namespace, tuple(sorted((k, r.attributes[k].value) for k in r.attributes)), tuple(kids))
        if isinstance(r, TextNode): return ("text", r.content)
        if isinstance(r, CommentNode): return ("c", r.content)
        return ("pi", r.target, r.content)
def lshape(e):
    # lxml-level shape with true expanded attribute names
    if e.tag is etree.Comment: return ("c", e.text)
    if e.tag is etree.PI: return ("pi", e.target, e.text)
    kids=[]
    if e.text: kids.append(("text", e.text))
    for c in e:
        kids.append(lshape(c))
        if c.tail: kids.append(("text", c.tail))
    return ("tag", e.tag, tuple(sorted(e.attrib.items())), tuple(kids))
SPECIAL=["a","&","<",">",'"',"'","]]>","ü","x y","\t","\n"]
def gen_src(rnd, depth=0, scope=None):
    scope = dict(scope or {})
    decl=""
    if rnd.random()<.4:
        p=rnd.choice([None,"p","q","ns0","ns1"]); u=rnd.choice(URIS+([""] if p is None else []))
        if not (p is None and depth==0 and u==""):
            scope[p]=u; decl+= (' xmlns="%s"'%u) if p is None else (' xmlns:%s="%s"'%(p,u))
    prefs=[p for p in scope if p is not None and scope[p]]
    pfx=rnd.choice(prefs+[None,None])
    name=(pfx+":" if pfx else "")+rnd.choice(["a","b"])
    attrs=""
    used=set()
    for _ in range(rnd.randint(0,2)):
        ap=rnd.choice(prefs+[None,None]); an=(ap+":" if ap else "")+rnd.choice(["k","j"])
        key=(scope.get(ap) if ap else None, an.split(":")[-1])
        if key in used or an in [x for x in used]: continue
        # avoid duplicate expanded names
        used.add(key)
        v="".join(rnd.choice(["v","&amp;","&lt;","&gt;","&quot;","'","ü"," "]) for _ in range(rnd.randint(0,3)))
        attrs+=' %s="%s"'%(an,v)
    kids=""
    if depth<3:
        for _ in range(rnd.randint(0,3)):
            q=rnd.random()
            if q<.35: kids+="".join(rnd.choice(["t","&amp;","&lt;","&gt;",'"',"'","]]&gt;","ü"," ","<![CDATA[<c>&]]>"]) for _ in range(rnd.randint(1,3)))
            elif q<.45: kids+="<!--c-->"
            elif q<.5: kids+="<?t p?>"
            else: kids+=gen_src(rnd, depth+1, scope)
    return "<%s%s%s>%s</%s>"%(name,decl,attrs,kids,name) if kids else "<%s%s%s/>"%(name,decl,attrs)
def gen_map(rnd):
    q=rnd.random()
    if q<.25: return None
    if q<.3: return {}
    m={}
    for _ in range(rnd.randint(1,3)):
        p=rnd.choice(["", None, "p","q","ns0","ns1","z"]); u=rnd.choice(URIS+["other"])
        if u in m.values(): continue
        if (p in ("",None)) and ("" in m or None in m): continue
        m[p]=u
    return m

def _main():
    bad={}
    N=int(sys.argv[1]) if len(sys.argv)>1 else 3000
    rnd=random.Random(5)
    tot=0
    for i in range(N):
        src=gen_src(rnd)
        try: d=Document(src)
        except Exception as e: continue
        m=gen_map(rnd)
        tot+=1
        try:
            out=d.root.serialize(namespaces=m)
        except Exception as e:
            bad.setdefault(("SER-EXC",type(e).__name__),[]).append((src,m)); continue
        try:
            back=Document(out)
        except Exception as e:
            bad.setdefault(("REPARSE-EXC",str(e)[:40]),[]).append((src,m,out)); continue
        if shape(back.root)!=shape(d.root):
            bad.setdefault(("DELB-SHAPE",),[]).append((src,m,out)); continue
        if lshape(etree.fromstring(out.encode()))!=lshape(d.root._etree_obj):
            # merge-insensitive compare
            bad.setdefault(("LXML-SHAPE",),[]).append((src,m,out))
        # C13 checks
        decls=re.findall(r'<([^\s/>]+)((?:\s+[^\s=]+="[^"]*")*)\s*/?>', out)
        first=True
        for nm,attrs in decls:
            has=re.findall(r'\s(xmlns(?::[^\s=]+)?)=', attrs)
            if has and not first: bad.setdefault(("C13-decl-not-on-root",),[]).append((src,m,out)); break
            first=False
        if m:
            for p,u in m.items():
                if p and re.search(r'xmlns:(\w+)="%s"'%re.escape(u), out) and not re.search(r'xmlns:%s="%s"'%(p,re.escape(u)), out):
                    bad.setdefault(("C13-caller-prefix-ignored",),[]).append((src,m,out)); break
    for k,v in sorted(bad.items(), key=lambda kv:-len(kv[1])):
        v.sort(key=lambda x: len(x[0])); print(len(v), k); print("    ", v[0])
    print("total", tot, "bad", sum(len(v) for v in bad.values()))
    
if __name__=='__main__': _main()
