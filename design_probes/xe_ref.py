"""Blueprint of XPath/Ref.v: XPath 1.0 semantics for the subset, over the same plain trees (with a doc node)."""
import math
from xe_model import children, descendants, root_of, docnode, sib_index
def parent(n): return n["parent"]
def ancestors_x(n):      # XPath ancestors incl. the root (document) node
    out=[]; c=n["parent"]
    while c is not None: out.append(c); c=c["parent"]
    return out
def order_all(n):
    d=n
    while d["parent"] is not None: d=d["parent"]
    return [d]+descendants(d)
DEV=False   # apply the three established delb deviations
def axis(name,n):
    """returns nodes in AXIS order (reverse axes: reverse document order)"""
    if DEV and name=="following":
        o=order_all(n); i=next(j for j,x in enumerate(o) if x is n); return o[i+1:]
    if DEV and name=="preceding":
        o=order_all(n); i=next(j for j,x in enumerate(o) if x is n); return [x for x in reversed(o[:i]) if x["kind"]!="doc"]
    if name=="self": return [n]
    if name=="child": return list(children(n))
    if name=="descendant": return descendants(n)
    if name=="descendant_or_self": return [n]+descendants(n)
    if name=="parent": return [n["parent"]] if n["parent"] is not None else []
    if name=="ancestor": return ancestors_x(n)
    if name=="ancestor_or_self": return [n]+ancestors_x(n)
    if name=="following_sibling":
        if n["parent"] is None: return []
        ks=n["parent"]["kids"]; return ks[sib_index(n)+1:]
    if name=="preceding_sibling":
        if n["parent"] is None: return []
        ks=n["parent"]["kids"]; return list(reversed(ks[:sib_index(n)]))
    o=order_all(n); i=next(j for j,x in enumerate(o) if x is n)
    if name=="following":
        desc=descendants(n); return [x for x in o[i+1:] if not any(x is d for d in desc)]
    if name=="preceding":
        anc=ancestors_x(n); return [x for x in reversed(o[:i]) if not any(x is a for a in anc)]
    raise KeyError(name)
def nodetest(t,n,nsmap):
    if t[0]=="anyname":
        if n["kind"]!="tag": return False
        return n["ns"]==nsmap[t[1]] if t[1] else True
    if t[0]=="name":
        if n["kind"]!="tag": return False
        ns = nsmap[t[1]] if t[1] else (nsmap.get("","") if DEV else "")          # XPath 1.0: no prefix -> null namespace
        return n["ns"]==ns and n["local"]==t[2]
    if t[0]=="typetest":
        k=t[1]
        if k=="TagNode": return (n["kind"] in("tag","doc")) if DEV else True               # node() is every node
        return n["kind"]=={"TextNode":"text","CommentNode":"c","ProcessingInstructionNode":"pi"}[k]
    if t[0]=="pitest": return n["kind"]=="pi" and n["target"]==t[1]
def strval(n):
    if n["kind"] in("tag","doc"): return "".join(x["content"] for x in descendants(n) if x["kind"]=="text")
    return n["content"]
class NS(list): pass          # node-set of nodes
class AS(list): pass          # node-set of attribute nodes, represented by their string values
def to_str(v):
    if isinstance(v,NS): return strval(v[0]) if v else ""
    if isinstance(v,AS): return v[0] if v else ""
    if isinstance(v,bool): return "true" if v else "false"
    if isinstance(v,float):
        if v!=v: return "NaN"
        if v==int(v): return str(int(v))
        return repr(v)
    return v
def to_num(v):
    if isinstance(v,float): return v
    if isinstance(v,bool): return 1.0 if v else 0.0
    s=to_str(v).strip()
    try:
        if not s or any(c not in "0123456789.-" for c in s): return float("nan")
        return float(s)
    except ValueError: return float("nan")
def to_bool(v):
    if isinstance(v,(NS,AS)): return len(v)>0
    if isinstance(v,bool): return v
    if isinstance(v,float): return v!=0 and v==v
    return len(v)>0
def strs(v): return [strval(x) for x in v] if isinstance(v,NS) else list(v)
def compare(op,l,r):
    import operator as O
    f={"=":O.eq,"!=":O.ne,"<":O.lt,"<=":O.le,">":O.gt,">=":O.ge}[op]
    ls=isinstance(l,(NS,AS)); rs=isinstance(r,(NS,AS))
    if ls and rs:
        if op in("=","!="): return any(f(a,b) for a in strs(l) for b in strs(r))
        return any(f(to_num(a),to_num(b)) for a in strs(l) for b in strs(r))
    if ls or rs:
        s,o,flip=(l,r,False) if ls else (r,l,True)
        def app(a,b): return f(b,a) if flip else f(a,b)
        if isinstance(o,bool): return app(to_bool(s),o)
        if isinstance(o,float): return any(app(to_num(a),o) for a in strs(s))
        if op in("=","!="): return any(app(a,o) for a in strs(s))
        return any(app(to_num(a),to_num(o)) for a in strs(s))
    if op in("=","!="):
        if isinstance(l,bool) or isinstance(r,bool): return f(to_bool(l),to_bool(r))
        if isinstance(l,float) or isinstance(r,float): return f(to_num(l),to_num(r))
        return f(to_str(l),to_str(r))
    return f(to_num(l),to_num(r))
def expr(e,n,pos,size,nsmap):
    k=e[0]
    if k=="val": return float(e[1]) if isinstance(e[1],int) else e[1]
    if k in("attrval","hasattr"):
        if n["kind"]!="tag": return AS()
        ns = nsmap[e[1]] if e[1] else ""
        v=n["attrs"].get((ns,e[2]))
        return AS([v]) if v is not None else AS()
    if k=="op":
        if e[1]=="and": return to_bool(expr(e[2],n,pos,size,nsmap)) and to_bool(expr(e[3],n,pos,size,nsmap))
        if e[1]=="or": return to_bool(expr(e[2],n,pos,size,nsmap)) or to_bool(expr(e[3],n,pos,size,nsmap))
        return compare(e[1], expr(e[2],n,pos,size,nsmap), expr(e[3],n,pos,size,nsmap))
    if k=="fn":
        a=[expr(x,n,pos,size,nsmap) for x in e[2]]
        f=e[1]
        if f=="position": return float(pos)
        if f=="last": return float(size)
        if f=="not": return not to_bool(a[0])
        if f=="boolean": return to_bool(a[0])
        if f=="contains": return to_str(a[1]) in to_str(a[0])
        if f=="starts-with": return to_str(a[0]).startswith(to_str(a[1]))
        if f=="concat": return "".join(to_str(x) for x in a)
        if f=="text": return NS([c for c in children(n) if c["kind"]=="text"])
    raise KeyError(e)
def step(st,n,nsmap):
    _,ax,nt,preds=st
    c=[x for x in axis(ax[1],n) if nodetest(nt,x,nsmap)]
    for p in preds:
        size=len(c); nc=[]
        for i,x in enumerate(c,1):
            v=expr(p,x,i,size,nsmap)
            keep = (v==float(i)) if isinstance(v,float) else to_bool(v)
            if keep: nc.append(x)
        c=nc
    return c
def evaluate(ex,ctx,nsmap):
    out=[]
    for (_,absolute,steps) in ex[1]:
        d=ctx
        while d["parent"] is not None: d=d["parent"]
        ns=[d] if absolute else [ctx]
        for st in steps:
            nx=[]
            for n in ns:
                for r in step(st,n,nsmap):
                    if not any(r is x for x in nx): nx.append(r)
            ns=nx
        for r in ns:
            if not any(r is x for x in out): out.append(r)
    o=order_all(ctx)
    return [x for x in o if any(x is y for y in out)]
