import random, sys, gc
gc.disable()
import f1
from delb import *
from _delb.nodes import TextNode, TagNode
orig_check=f1.check
def check2(o, path="/"):
    e=orig_check(o,path)
    if e: return e
    if path=="/" and o.kind=="tag":
        with altered_default_filters():
            nodes=[o.real]+list(o.real.iterate_descendants())
        tags=[n for n in nodes if isinstance(n,TagNode)]
        seen={}
        for amb in [None, (), (is_text_node,), (is_comment_node,), (is_tag_node,)]:
            cm = altered_default_filters(*amb) if amb is not None else altered_default_filters(lambda n: isinstance(n,(TagNode,TextNode)))
            with cm:
                for n in tags:
                    p=n.location_path
                    if amb is None:
                        if p in seen: return "LP-dup %s"%p
                        seen[p]=n
                    elif seen.get(p) is not n: return "LP-ambient-dependent %s %r"%(p,amb)
                    for ctx in nodes[:6]:
                        try: res=ctx.xpath(p)
                        except Exception as ex: return "LP-xpath-EXC %s %s ctx=%s"%(type(ex).__name__, p, type(ctx).__name__)
                        if res.size!=1 or res[0] is not n: return "LP-wrong %s ctx=%s amb=%r size=%d"%(p,type(ctx).__name__,amb,res.size)
    return None
f1.check=check2
bad={}
N=int(sys.argv[1]) if len(sys.argv)>1 else 300
for seed in range(N):
    r=f1.run(seed, nops=6)
    if r: bad.setdefault(r[3][:60],[]).append(r)
for k,v in bad.items():
    v.sort(key=lambda r: len(r[2])); print(len(v), k, v[0][1], v[0][2], v[0][3][:200])
print("runs",N,"bad",sum(len(v) for v in bad.values()))
