from delb import *
from _delb.nodes import TextNode, TagNode, CommentNode, ProcessingInstructionNode
def plain(r, parent):
    with altered_default_filters():
        if isinstance(r, TagNode):
            n={"kind":"tag","ns":r.namespace,"local":r.local_name,"attrs":{(a.namespace,a.local_name):a.value for a in r.attributes.values()},"parent":parent,"real":r}
            n["kids"]=[plain(c,n) for c in r.iterate_children()]; return n
        if isinstance(r, TextNode): return {"kind":"text","content":r.content,"parent":parent,"real":r,"kids":[]}
        if isinstance(r, CommentNode): return {"kind":"c","content":r.content,"parent":parent,"real":r,"kids":[]}
        return {"kind":"pi","target":r.target,"content":r.content,"parent":parent,"real":r,"kids":[]}
def mkdoc(d):
    doc={"kind":"doc","parent":None,"kids":[]}
    doc["kids"]=[plain(d.root,doc)]
    return doc
def allnodes(n):
    out=[n]
    for k in n["kids"]: out+=allnodes(k)
    return out
