"""Blueprint check for Misc/GC.v: which wrappers survive a collection at a quiescent point, given what the program holds."""
import gc, random, sys, weakref
from delb import *
from _delb.nodes import _wrapper_cache, TextNode, TagNode
def build(rnd):
    d = Document('<r>a<x>p<i/>q</x>b<!--c-->d<y><z/>t</y></r>')
    root = d.root
    with altered_default_filters():
        keep = []
        # add appended text nodes at a few places
        for tgt in [root[0], root[1][0], root[2], root[5][0]]:
            if rnd.random()<.6: keep.append(tgt.add_following_siblings("+"))
        del keep
    return d
def snapshot(d):
    """returns list of (path, kind, obj) for every node incl. text objects, in doc order (strong refs!)"""
    out=[]
    def walk(n, path):
        out.append((path, type(n).__name__, n))
        if isinstance(n, TagNode):
            with altered_default_filters():
                for i,c in enumerate(n.iterate_children()): walk(c, path+(i,))
    walk(d.root, ())
    return out
def predict(nodes, held_idx, hold_doc):
    """model: element wrapper survives iff held, or (doc root and doc held), or one of its appended (non-head) text objects in
    its data/tail chains is held.  [heads are NOT looked at].  Text chains of evicted wrappers merge."""
    # compute for each element wrapper its chains
    idx={id(o):i for i,(_,_,o) in enumerate(nodes)}
    surv=set()
    for i,(path,kind,o) in enumerate(nodes):
        if kind=="TextNode": continue
        if i in held_idx: surv.add(i); continue
        if path==() and hold_doc: surv.add(i); continue
        chains=[]
        if kind=="TagNode": chains.append(o._data_node)
        chains.append(o._tail_node)
        ref=False
        for h in chains:
            cur=h._appended_text_node
            while cur is not None:
                if idx.get(id(cur)) in held_idx: ref=True
                cur=cur._appended_text_node
        if ref: surv.add(i)
    return surv
bad=[]; N=int(sys.argv[1]) if len(sys.argv)>1 else 300
for seed in range(N):
    rnd=random.Random(seed)
    gc.collect(); gc.collect()
    assert len(_wrapper_cache.wrappers)==0, len(_wrapper_cache.wrappers)
    d=build(rnd)
    nodes=snapshot(d)
    n=len(nodes)
    held_idx=set(i for i in range(n) if rnd.random()<.25)
    hold_doc=rnd.random()<.5
    pred=predict(nodes, held_idx, hold_doc)
    pred_paths=set(nodes[i][0] for i in pred)
    el_ids={nodes[i][0]: id(nodes[i][2]._etree_obj) for i in range(n) if nodes[i][1]!="TextNode"}
    kinds=[(p,k) for p,k,_ in nodes]
    held=[nodes[i][2] for i in sorted(held_idx)]
    held_desc=[(nodes[i][0],nodes[i][1], nodes[i][2]._position if nodes[i][1]=="TextNode" else None) for i in sorted(held_idx)]
    text_before = str(d.root)
    hd = d if hold_doc else None
    del nodes, d
    gc.collect()
    cached_ids=set(id(e) for e in _wrapper_cache.wrappers)
    got=set(p for p,i in el_ids.items() if i in cached_ids)
    if got!=pred_paths:
        bad.append((seed, "survivors", sorted(got^pred_paths), held_desc, hold_doc))
    del held, hd
    gc.collect(); gc.collect()
    if len(_wrapper_cache.wrappers)!=0: bad.append((seed,"not-empty-after-release",len(_wrapper_cache.wrappers)))
for b in bad[:10]: print(b)
print("runs",N,"bad",len(bad))
