From Coq Require Import List NArith Bool Lia.
Import ListNotations.
Definition char := N.
Definition str := list char.
(* character constants *)
Definition LT : char := 60%N.  Definition GT : char := 62%N.  Definition AMP : char := 38%N.
Definition SEMI : char := 59%N. Definition SLASH : char := 47%N. Definition QUOT : char := 34%N.
Definition ca : char := 97%N. Definition cm : char := 109%N. Definition cp : char := 112%N.
Definition cl : char := 108%N. Definition ct : char := 116%N. Definition cg : char := 103%N.
Definition cq : char := 113%N. Definition cu : char := 117%N. Definition co : char := 111%N.
Definition SP : char := 32%N. Definition EQ : char := 61%N.

(* ---------- escaping (CCE_TABLE_FOR_TEXT / _FOR_ATTRIBUTES) and the reader's unescaping ---------- *)
Definition esc_char (attr : bool) (c : char) : str :=
  if N.eqb c AMP then [AMP; ca; cm; cp; SEMI]
  else if N.eqb c GT then [AMP; cg; ct; SEMI]
  else if N.eqb c LT then [AMP; cl; ct; SEMI]
  else if (attr && N.eqb c QUOT)%bool then [AMP; cq; cu; co; ct; SEMI]
  else [c].
Definition escape (attr : bool) (s : str) : str := flat_map (esc_char attr) s.

Fixpoint prefix (p s : str) : bool :=
  match p, s with [], _ => true | a :: p', b :: s' => (N.eqb a b && prefix p' s')%bool | _ :: _, [] => false end.
(* structural: after recognising an entity, `skip` drops its remaining characters *)
Fixpoint unesc (skip : nat) (s : str) : option str :=
  match s with
  | [] => match skip with O => Some [] | S _ => None end
  | c :: r =>
      match skip with
      | S k => unesc k r
      | O =>
          if N.eqb c AMP then
            if prefix [ca; cm; cp; SEMI] r then option_map (cons AMP) (unesc 4 r)
            else if prefix [cg; ct; SEMI] r then option_map (cons GT) (unesc 3 r)
            else if prefix [cl; ct; SEMI] r then option_map (cons LT) (unesc 3 r)
            else if prefix [cq; cu; co; ct; SEMI] r then option_map (cons QUOT) (unesc 5 r)
            else None
          else option_map (cons c) (unesc 0 r)
      end
  end.
Definition unescape := unesc 0.

Lemma unesc_skip w t : unesc (length w) (w ++ t) = unesc 0 t.
Proof. induction w as [|c w IH]; cbn; [reflexivity|exact IH]. Qed.

Lemma unesc_esc_char attr c t : unesc 0 (esc_char attr c ++ t) = option_map (cons c) (unesc 0 t).
Proof.
  unfold esc_char.
  destruct (N.eqb_spec c AMP) as [->|H1]; [reflexivity|].
  destruct (N.eqb_spec c GT) as [->|H2]; [reflexivity|].
  destruct (N.eqb_spec c LT) as [->|H3]; [reflexivity|].
  destruct (attr && N.eqb c QUOT)%bool eqn:E4.
  - apply andb_prop in E4 as [_ E]. apply N.eqb_eq in E. subst c. reflexivity.
  - cbn [app unesc]. replace (N.eqb c AMP) with false by (symmetry; apply N.eqb_neq; exact H1). reflexivity.
Qed.
Lemma unescape_escape attr s : unescape (escape attr s) = Some s.
Proof.
  unfold unescape, escape. induction s as [|c s IH]; [reflexivity|].
  cbn [flat_map]. rewrite unesc_esc_char, IH. reflexivity.
Qed.

(* escaped text contains no LT (and escaped attribute values no QUOT either): the reader can find its end *)
Lemma escape_no_lt attr s : ~ In LT (escape attr s).
Proof.
  unfold escape. induction s as [|c s IH]; cbn [flat_map]; [tauto|].
  intros Hin. apply in_app_or in Hin as [Hin|Hin]; [|exact (IH Hin)].
  unfold esc_char in Hin.
  destruct (N.eqb_spec c AMP); [cbn in Hin; intuition discriminate|].
  destruct (N.eqb_spec c GT); [cbn in Hin; intuition discriminate|].
  destruct (N.eqb_spec c LT); [cbn in Hin; intuition discriminate|].
  destruct (attr && N.eqb c QUOT)%bool; cbn in Hin; [intuition discriminate|].
  destruct Hin as [Hin|[]]. congruence.
Qed.
Lemma escape_attr_no_quot s : ~ In QUOT (escape true s).
Proof.
  unfold escape. induction s as [|c s IH]; cbn [flat_map]; [tauto|].
  intros Hin. apply in_app_or in Hin as [Hin|Hin]; [|exact (IH Hin)].
  unfold esc_char in Hin.
  destruct (N.eqb_spec c AMP); [cbn in Hin; intuition discriminate|].
  destruct (N.eqb_spec c GT); [cbn in Hin; intuition discriminate|].
  destruct (N.eqb_spec c LT); [cbn in Hin; intuition discriminate|].
  cbn [andb] in Hin. destruct (N.eqb_spec c QUOT); cbn in Hin; [intuition discriminate|].
  destruct Hin as [Hin|[]]. congruence.
Qed.
Print Assumptions unescape_escape.

(* ---------- a miniature of the round trip: elements (no attributes yet) and escaped text ---------- *)
Fixpoint span (p : char -> bool) (s : str) : str * str :=
  match s with
  | [] => ([], [])
  | c :: r => if p c then let '(a, b) := span p r in (c :: a, b) else ([], s)
  end.
Definition stops (p : char -> bool) (rest : str) : Prop := match rest with [] => True | c :: _ => p c = false end.
Lemma span_app p a rest : Forall (fun c => p c = true) a -> stops p rest -> span p (a ++ rest) = (a, rest).
Proof.
  induction 1 as [|c a Hc Ha IH]; intros Hs; cbn [app].
  - destruct rest as [|c r]; [reflexivity|]. cbn in *. rewrite Hs. reflexivity.
  - cbn [span]. rewrite Hc, (IH Hs). reflexivity.
Qed.

Definition is_name_char (c : char) : bool :=
  ((97 <=? c) && (c <=? 122) || (65 <=? c) && (c <=? 90) || (48 <=? c) && (c <=? 57) || (c =? 58) || (c =? 95) || (c =? 45) || (c =? 46))%N%bool.
Definition name_ok (n : str) : Prop := n <> [] /\ Forall (fun c => is_name_char c = true) n.
Definition not_lt (c : char) : bool := negb (N.eqb c LT).

Inductive tree := E (name : str) (kids : list tree) | T (s : str).

Definition render_items (rec : tree -> str) := fix go (l : list tree) : str := match l with [] => [] | k :: r => rec k ++ go r end.
Fixpoint render (t : tree) : str :=
  match t with
  | T s => escape false s
  | E n [] => LT :: n ++ [SLASH; GT]
  | E n ks => LT :: n ++ GT :: render_items render ks ++ LT :: SLASH :: n ++ [GT]
  end.
Definition render_kids := render_items render.

(* the reader: recursive descent with fuel; returns the children read and the unread rest *)
Fixpoint str_eqb (a b : str) : bool :=
  match a, b with [], [] => true | x :: a', y :: b' => (N.eqb x y && str_eqb a' b')%bool | _, _ => false end.
Lemma str_eqb_refl a : str_eqb a a = true.
Proof. induction a; cbn; [reflexivity|]. rewrite N.eqb_refl. exact IHa. Qed.

Fixpoint read_kids (fuel : nat) (s : str) : option (list tree * str) :=
  match fuel with
  | O => None
  | S f =>
      match s with
      | [] => Some ([], [])
      | c :: r =>
          if N.eqb c LT then
            match r with
            | c2 :: _ =>
                if N.eqb c2 SLASH then Some ([], s)            (* an end tag: the caller's business *)
                else
                  let '(n, r1) := span is_name_char r in
                  match n, r1 with
                  | _ :: _, d :: r2 =>
                      if N.eqb d GT then
                        match read_kids f r2 with
                        | Some (ks, r3) =>
                            match r3 with
                            | l :: sl :: r4 =>
                                let '(n2, r5) := span is_name_char r4 in
                                match r5 with
                                | g :: r6 =>
                                    if (N.eqb l LT && N.eqb sl SLASH && str_eqb n n2 && N.eqb g GT)%bool then
                                      match read_kids f r6 with
                                      | Some (rest_kids, r7) => Some (E n ks :: rest_kids, r7)
                                      | None => None
                                      end
                                    else None
                                | [] => None
                                end
                            | _ => None
                            end
                        | None => None
                        end
                      else if N.eqb d SLASH then
                        match r2 with
                        | g :: r3 => if N.eqb g GT then
                                       match read_kids f r3 with Some (rk, r7) => Some (E n [] :: rk, r7) | None => None end
                                     else None
                        | [] => None
                        end
                      else None
                  | _, _ => None
                  end
            | [] => None
            end
          else
            let '(txt, r1) := span not_lt s in
            match unescape txt, read_kids f r1 with
            | Some t, Some (rk, r7) => Some (T t :: rk, r7)
            | _, _ => None
            end
      end
  end.

(* ---------- well-formed input and the round-trip theorem ---------- *)
Definition is_text (t : tree) : bool := match t with T _ => true | E _ _ => false end.
Fixpoint no_adj (l : list tree) : Prop :=
  match l with
  | a :: ((b :: _) as r) => (is_text a && is_text b = false)%bool /\ no_adj r
  | _ => True
  end.
Inductive wf : tree -> Prop :=
| wf_T s : s <> [] -> wf (T s)
| wf_E n ks : name_ok n -> Forall wf ks -> no_adj ks -> wf (E n ks).
Definition wfk (ks : list tree) : Prop := Forall wf ks /\ no_adj ks.

Fixpoint size (t : tree) : nat :=
  match t with T _ => 1 | E _ ks => S ((fix go l := match l with [] => 0 | k :: r => size k + go r end) ks) end.
Definition sizes (l : list tree) : nat := (fix go l := match l with [] => 0 | k :: r => size k + go r end) l.
Lemma size_E n ks : size (E n ks) = S (sizes ks). Proof. reflexivity. Qed.
Lemma sizes_cons k r : sizes (k :: r) = size k + sizes r. Proof. reflexivity. Qed.

Definition tail_ok (rest : str) : Prop := rest = [] \/ exists r, rest = LT :: SLASH :: r.

Lemma name_char_not c : is_name_char c = true -> c <> LT /\ c <> GT /\ c <> SLASH.
Proof.
  unfold is_name_char, LT, GT, SLASH. intros H. repeat split; intros ->; vm_compute in H; discriminate.
Qed.
Lemma esc_head attr c : exists d t, esc_char attr c = d :: t /\ d <> LT.
Proof.
  unfold esc_char.
  destruct (N.eqb_spec c AMP); [eexists _, _; split; [reflexivity|discriminate]|].
  destruct (N.eqb_spec c GT); [eexists _, _; split; [reflexivity|discriminate]|].
  destruct (N.eqb_spec c LT); [eexists _, _; split; [reflexivity|discriminate]|].
  destruct (attr && N.eqb c QUOT)%bool; [eexists _, _; split; [reflexivity|discriminate]|].
  eexists _, _; split; [reflexivity|assumption].
Qed.
Lemma escape_all_not_lt attr s : Forall (fun c => not_lt c = true) (escape attr s).
Proof.
  apply Forall_forall. intros c Hin. unfold not_lt. destruct (N.eqb_spec c LT) as [->|]; [|reflexivity].
  exfalso. exact (escape_no_lt attr s Hin).
Qed.

(* what follows a child in the rendering either is empty or starts with '<' when the next sibling is not a text *)
Lemma render_starts_lt t : is_text t = false -> exists r, render t = LT :: r.
Proof. destruct t as [n [|k ks]|s]; cbn; try discriminate; intros _; eexists; reflexivity. Qed.

Lemma follow_stops ks rest : no_adj ks -> Forall wf ks -> tail_ok rest ->
  (match ks with k :: _ => is_text k = false | [] => True end) ->
  stops not_lt (render_kids ks ++ rest).
Proof.
  intros Hna Hwf Ht Hfirst. destruct ks as [|k r].
  - cbn. destruct Ht as [->|[r' ->]]; cbn; [exact I|reflexivity].
  - destruct (render_starts_lt k Hfirst) as [x Ex]. cbn [render_kids render_items]. fold (render_items render).
    rewrite Ex. cbn. reflexivity.
Qed.

Theorem read_render : forall fuel ks rest, wfk ks -> tail_ok rest -> (sizes ks < fuel)%nat ->
  read_kids fuel (render_kids ks ++ rest) = Some (ks, rest).
Proof.
  induction fuel as [|f IH]; intros ks rest [Hwf Hna] Ht Hsz; [lia|].
  destruct ks as [|k r].
  - (* no more children: the rest is empty or an end tag *)
    cbn [render_kids render_items app]. destruct Ht as [->|[r' ->]]; reflexivity.
  - assert (Hwk : wf k) by (inversion Hwf; assumption).
    assert (Hwr : wfk r).
    { split; [inversion Hwf; assumption|]. destruct r as [|b r']; [exact I|]. cbn in Hna. tauto. }
    rewrite sizes_cons in Hsz.
    cbn [render_kids render_items]. fold (render_items render). fold render_kids. rewrite <- app_assoc.
    destruct k as [n kids|s].
    + (* an element *)
      inversion Hwk as [|? ? [Hne Hnc] Hkw Hkn]; subst.
      destruct n as [|n0 n']; [congruence|].
      assert (Hn0 : is_name_char n0 = true) by (inversion Hnc; assumption).
      destruct (name_char_not n0 Hn0) as (N1 & N2 & N3).
      rewrite size_E in Hsz.
      destruct kids as [|k0 kids'].
      * (* empty element *)
        cbn [render app read_kids]. rewrite N.eqb_refl.
        replace (N.eqb n0 SLASH) with false by (symmetry; apply N.eqb_neq; exact N3).
        change (n0 :: n' ++ [SLASH; GT] ++ render_kids r ++ rest) with ((n0 :: n') ++ SLASH :: GT :: render_kids r ++ rest).
        rewrite <- app_assoc. cbn [app].
        change (n0 :: n' ++ SLASH :: GT :: render_kids r ++ rest) with ((n0 :: n') ++ SLASH :: GT :: render_kids r ++ rest).
        rewrite (span_app is_name_char (n0 :: n')) by (exact Hnc || reflexivity).
        replace (N.eqb SLASH GT) with false by reflexivity. rewrite N.eqb_refl. rewrite N.eqb_refl.
        rewrite (IH r rest Hwr Ht) by lia. reflexivity.
      * (* element with children *)
        set (kids := k0 :: kids') in *. set (n := n0 :: n') in *.
        assert (Er : render (E n kids) ++ render_kids r ++ rest
                     = LT :: n ++ GT :: (render_kids kids ++ (LT :: SLASH :: n ++ GT :: (render_kids r ++ rest)))).
        { change (render (E n kids)) with (LT :: n ++ GT :: render_kids kids ++ LT :: SLASH :: n ++ [GT]).
          cbn [app]. f_equal. rewrite <- !app_assoc. cbn [app]. f_equal. f_equal.
          rewrite <- !app_assoc. cbn [app]. f_equal. f_equal. f_equal. rewrite <- !app_assoc. reflexivity. }
        rewrite Er. clear Er.
        set (tl2 := render_kids r ++ rest).
        set (tl1 := LT :: SLASH :: n ++ GT :: tl2).
        cbn [read_kids]. rewrite N.eqb_refl.
        assert (En : n ++ GT :: render_kids kids ++ tl1 = n0 :: n' ++ GT :: render_kids kids ++ tl1) by reflexivity.
        rewrite En. replace (N.eqb n0 SLASH) with false by (symmetry; apply N.eqb_neq; exact N3).
        rewrite <- En. clear En.
        rewrite (span_app is_name_char n (GT :: render_kids kids ++ tl1)) by (exact Hnc || reflexivity).
        subst n. cbv iota. rewrite N.eqb_refl.
        rewrite (IH kids tl1) by (try (split; assumption); try (right; eexists; reflexivity); lia).
        subst tl1. cbv iota.
        rewrite (span_app is_name_char (n0 :: n') (GT :: tl2)) by (exact Hnc || reflexivity).
        cbv iota. rewrite !N.eqb_refl, str_eqb_refl. cbn [andb].
        subst tl2. rewrite (IH r rest Hwr Ht) by lia. reflexivity.
    + (* a text *)
      inversion Hwk as [? Hs|]; subst. cbn [size] in Hsz.
      destruct s as [|c s']; [congruence|].
      destruct (esc_head false c) as (d & t & Ed & Hd).
      assert (Eesc : escape false (c :: s') = d :: t ++ escape false s') by (unfold escape; cbn [flat_map]; rewrite Ed; reflexivity).
      cbn [render]. rewrite Eesc. cbn [app read_kids].
      replace (N.eqb d LT) with false by (symmetry; apply N.eqb_neq; exact Hd).
      change (d :: (t ++ escape false s') ++ render_kids r ++ rest) with ((d :: t ++ escape false s') ++ render_kids r ++ rest).
      rewrite <- Eesc.
      rewrite (span_app not_lt (escape false (c :: s'))).
      * rewrite unescape_escape. rewrite (IH r rest Hwr Ht) by lia. reflexivity.
      * apply escape_all_not_lt.
      * apply follow_stops; [destruct Hwr; assumption|destruct Hwr; assumption|exact Ht|].
        destruct r as [|b r']; [exact I|]. cbn in Hna. destruct Hna as [Hb _]. cbn in Hb. exact Hb.
Qed.
Print Assumptions read_render.
