import random, sys, gc, collections
gc.disable()
from delb import *
from _delb.nodes import TextNode, TagNode, CommentNode, ProcessingInstructionNode, _wrapper_cache
from lxml import etree
import xp_model as P, xe_model as E, xe_ref as R, f7, xe_fuzz_lib as L
rnd=random.Random(int(sys.argv[2]) if len(sys.argv)>2 else 1)
N=int(sys.argv[1]) if len(sys.argv)>1 else 3000
f7.AXES[:]=f7.AXES+["following","preceding"]
st=collections.Counter(); bad={}; agree=collections.Counter(); dis={}
KEEP=[]
def lkey(x, doc):
    # map lxml result to plain node
    if isinstance(x, etree._Element):
        for n in L.allnodes(doc):
            if n["kind"] in("tag","c","pi") and n["real"]._etree_obj is x: return n
    if isinstance(x,str) and hasattr(x,"getparent"):
        par=x.getparent()
        for n in L.allnodes(doc):
            if n["kind"]=="text":
                r=n["real"]
                if x.is_text and r._position==1 and r._bound_to is par: return n
                if x.is_tail and r._position==2 and r._bound_to is par: return n
    return None
for src in f7.DOCS:
    d=Document(src); KEEP.append(d)
    doc=L.mkdoc(d); nodes=L.allnodes(doc)[1:]
    usermap={"p":"u"} if "xmlns:p" in src else {}
    for i in range(N):
        e=f7.gen_expr(rnd)
        if "p:" in e and not usermap: continue
        ctx=rnd.choice([n for n in nodes if n["kind"]!="text"])
        m=P.parse(e)
        if m[0]!="ok": continue
        try:
            lres=ctx["real"]._etree_obj.xpath(e, namespaces=usermap or None)
        except Exception as ex: st["lxml-exc"]+=1; continue
        if not isinstance(lres,list): st["lxml-nonlist"]+=1; continue
        lk=[lkey(x,doc) for x in lres]
        if any(x is None for x in lk): st["unmapped"]+=1; continue
        try: rr=R.evaluate(m[1],ctx,usermap)
        except Exception as ex: bad.setdefault("REF-EXC "+type(ex).__name__,[]).append((e,)); continue
        st["cmp"]+=1
        o=R.order_all(ctx)
        rr=[x for x in rr if x["kind"]!="doc"]
        ls=[x for x in o if any(x is y for y in lk)]
        if [id(x) for x in ls]!=[id(x) for x in rr]:
            bad.setdefault("REF!=LXML",[]).append((e,ctx["kind"],len(rr),len(ls)))
print(dict(st))
for k,v in bad.items():
    v.sort(key=lambda x: len(x[0])); print(len(v),k, v[:5])
