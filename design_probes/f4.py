# C10: clones equal and independent
import random, sys, gc
gc.disable()
import f1
from delb import *
from _delb.nodes import TextNode, TagNode, CommentNode, ProcessingInstructionNode
def shape(r):
    with altered_default_filters():
        if isinstance(r, TagNode):
            return ("tag", r.local_name, r.namespace, tuple(sorted((k, r.attributes[k].value) for k in r.attributes)), tuple(shape(c) for c in r.iterate_children()))
        if isinstance(r, TextNode): return ("text", r.content)
        if isinstance(r, CommentNode): return ("c", r.content)
        return ("pi", r.target, r.content)
orig_check=f1.check
errs={}
def check2(o, path="/"):
    e=orig_check(o,path)
    if e: return e
    if path=="/" and o.kind=="tag":
        rnd=random.Random(hash(str(o.real))&0xffff)
        with altered_default_filters():
            nodes=[o.real]+list(o.real.iterate_descendants())
            before=shape(o.real)
            for n in nodes:
                c=n.clone(deep=True)
                if shape(c)!=shape(n): return "CLONE-shape %r %r"%(shape(c),shape(n))
                if c.parent is not None or c._fetch_following_sibling() is not None or c.fetch_preceding_sibling() is not None: return "CLONE-attached"
                if isinstance(n,TagNode):
                    s=n.clone(deep=False)
                    if shape(s)!=shape(n)[:4]+((),): return "CLONE-shallow"
                    # edit clone, original must be unchanged
                    c.append_children("ZZ"); 
                    if len(c): c[0].detach()
                    c.attributes["newattr"]="1"
                    if shape(o.real)!=before: return "CLONE-dependent(orig changed)"
                    cs=shape(c)
                    # edit original, clone unchanged
                    n.attributes["tmp"]="1"; 
                    if shape(c)!=cs: return "CLONE-dependent(clone changed)"
                    del n.attributes["tmp"]
    return None
f1.check=check2
bad={}
N=int(sys.argv[1]) if len(sys.argv)>1 else 300
for seed in range(N):
    r=f1.run(seed, nops=8)
    if r: bad.setdefault(r[3][:70],[]).append(r)
for k,v in bad.items():
    v.sort(key=lambda r: len(r[2])); print(len(v), k, v[0][1], v[0][2], v[0][3][:300])
print("runs",N,"bad",sum(len(v) for v in bad.values()))
# document clone
d=Document('<!--a--><?p q?><r xmlns="d" k="v">t<x/>u</r><!--z-->'); c=d.clone()
print(str(c)==str(d), str(c))
