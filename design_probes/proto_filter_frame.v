From Coq Require Import List Arith Bool Lia.
Import ListNotations.
(* C08, part 1 in miniature: the default-filter stack under arbitrary interleavings of client blocks,
   library calls and (partially consumed, possibly abandoned) library generators. *)
Section Filters.
Variable filt : Type.                          (* a tuple of filters *)
Inductive sop := Push (f : filt) | Pop.
Definition stack := list filt.
Fixpoint run_ops (ops : list sop) (st : stack) : option stack :=
  match ops with
  | [] => Some st
  | Push f :: r => run_ops r (f :: st)
  | Pop :: r => match st with [] => None | _ :: st' => run_ops r st' end
  end.
(* a routine is summarised by its segments between suspension points; the last segment runs on exhaustion or finalisation *)
Definition routine := list (list sop).
Definition balanced_seg (seg : list sop) : Prop := forall st, run_ops seg st = Some st.
Definition balanced (r : routine) : Prop := Forall balanced_seg r.

(* client actions *)
Inductive act :=
| CPush (f : filt)            (* the client enters `with altered_default_filters(f)` *)
| CPop                        (* ... and leaves it *)
| Seg (r : nat) (i : nat).    (* the library runs segment i of routine r: a call, a resumption, or a finalisation *)
Variable routines : list routine.
Definition seg_of (r i : nat) : list sop := nth i (nth r routines []) [].
Fixpoint run (p : list act) (st : stack) : option stack :=
  match p with
  | [] => Some st
  | CPush f :: q => run q (f :: st)
  | CPop :: q => match st with [] => None | _ :: st' => run q st' end
  | Seg r i :: q => match run_ops (seg_of r i) st with Some st' => run q st' | None => None end
  end.
(* what the client itself established *)
Fixpoint own (p : list act) (st : stack) : option stack :=
  match p with
  | [] => Some st
  | CPush f :: q => own q (f :: st)
  | CPop :: q => match st with [] => None | _ :: st' => own q st' end
  | Seg _ _ :: q => own q st
  end.

Lemma seg_balanced r i : Forall balanced routines -> balanced_seg (seg_of r i).
Proof.
  intros H. unfold seg_of.
  destruct (Nat.lt_ge_cases r (length routines)) as [Hr|Hr].
  - assert (Hb : balanced (nth r routines [])) by (apply Forall_forall with (x := nth r routines []) in H; [exact H|apply nth_In; exact Hr]).
    destruct (Nat.lt_ge_cases i (length (nth r routines []))) as [Hi|Hi].
    + unfold balanced in Hb. rewrite Forall_forall in Hb. apply Hb. apply nth_In. exact Hi.
    + rewrite (nth_overflow _ _ Hi). intros st. reflexivity.
  - rewrite (nth_overflow _ _ Hr). cbn. destruct i; intros st; reflexivity.
Qed.

(* the frame theorem: if every segment of every library routine is balanced, then at every point of every
   interleaving the stack is exactly what the client's own blocks established *)
Theorem frame : Forall balanced routines -> forall p st, run p st = own p st.
Proof.
  intros H. induction p as [|a q IH]; intros st; [reflexivity|].
  destruct a as [f| |r i]; cbn.
  - apply IH.
  - destruct st; [reflexivity|apply IH].
  - rewrite (seg_balanced r i H st). apply IH.
Qed.
End Filters.
Arguments Push {filt} f.
Arguments Pop {filt}.

(* the shape of the generated summaries, and the decidable check closed by computation *)
Fixpoint depth_ok (seg : list (sop unit)) (d : nat) : bool :=
  match seg with
  | [] => Nat.eqb d 0
  | Push _ :: r => depth_ok r (S d)
  | Pop :: r => match d with 0 => false | S d' => depth_ok r d' end
  end.
Lemma depth_ok_run seg : forall d pre st, length pre = d -> depth_ok seg d = true ->
  run_ops unit seg (pre ++ st) = Some st.
Proof.
  induction seg as [|o r IH]; intros d pre st Hl H; cbn in *.
  - apply Nat.eqb_eq in H. subst d. destruct pre; [reflexivity|discriminate].
  - destruct o as [f|].
    + apply (IH (S d) (f :: pre) st); [cbn; lia|exact H].
    + destruct d; [discriminate|]. destruct pre as [|x pre']; [discriminate|]. cbn.
      apply (IH d pre' st); [cbn in Hl; lia|exact H].
Qed.
Lemma depth_ok_balanced seg : depth_ok seg 0 = true -> balanced_seg unit seg.
Proof. intros H st. exact (depth_ok_run seg 0 [] st eq_refl H). Qed.

(* example of what GenFilterFx.v looks like for the unchanged source: iterate_descendants holds the context across yields *)
Definition iterate_descendants_summary : routine unit := [[Push tt]; []; [Pop]].
Definition xpath_summary : routine unit := [[Push tt; Pop]].
Example unchanged_source_is_not_balanced :
  forallb (fun seg => depth_ok seg 0) iterate_descendants_summary = false.
Proof. reflexivity. Qed.
Example xpath_is_balanced : forallb (fun seg => depth_ok seg 0) xpath_summary = true.
Proof. reflexivity. Qed.
Print Assumptions frame.
