From Coq Require Import List NArith Bool Lia.
Import ListNotations.
Require Import Base proto_ws_padding.

(* simplified trees: N = any non-text node (element with children, comment, PI), X = text *)
Inductive tree := N (kids : list tree) | X (s : str).

(* the reducer on a child list (empty texts already dropped): first/last are positional *)
Definition red_items (rec : tree -> tree) :=
  fix go (first : bool) (l : list tree) : list tree :=
    match l with
    | [] => []
    | k :: r =>
        match k with
        | X s => let c := spec s first (null r) in (if null c then [] else [X c]) ++ go false r
        | N _ => rec k :: go false r
        end
    end.
Fixpoint red (t : tree) : tree :=
  match t with X s => X s | N ks => N (red_items red true ks) end.
Definition red_kids := red_items red.

Inductive sib := Start | AfterN | AfterX.
Definition is_start (p : sib) : bool := match p with Start => true | _ => false end.

(* whitespace variants of normal-form child lists: `wv prev l l'` says that l (a tail of a child list whose
   previous sibling is described by prev) is in normal form and that l' pads it with whitespace at legal places only *)
Definition opt_ws (w : str) : list tree := if null w then [] else [X w].
Inductive wv : sib -> list tree -> list tree -> Prop :=
| wv_nil_start : wv Start [] []
| wv_nil_afterX : wv AfterX [] []
| wv_nil_afterN w : all_ws w -> wv AfterN [] (opt_ws w)
| wv_N_start w ks ks' r r' : all_ws w -> wvk ks ks' -> wv AfterN r r' ->
    wv Start (N ks :: r) (opt_ws w ++ N ks' :: r')
| wv_N prev ks ks' r r' : prev <> Start -> wvk ks ks' -> wv AfterN r r' -> wv prev (N ks :: r) (N ks' :: r')
| wv_X prev lead trail k w1 w2 r r' : core k -> prev <> AfterX ->
    (prev = Start -> lead = false) -> (r = [] -> trail = false) ->
    all_ws w1 -> all_ws w2 ->
    (prev <> Start -> null w1 = negb lead) -> (r <> [] -> null w2 = negb trail) ->
    wv AfterX r r' -> wv prev (X (optsp lead ++ k ++ optsp trail) :: r) (X (w1 ++ k ++ w2) :: r')
| wv_space w r r' : all_ws w -> w <> [] -> r <> [] -> wv AfterX r r' -> wv AfterN (X [SP] :: r) (X w :: r')
with wvk : list tree -> list tree -> Prop :=
| wvk_only_space w : all_ws w -> w <> [] -> wvk [X [SP]] [X w]
| wvk_list l l' : wv Start l l' -> wvk l l'.

Scheme wv_mut := Induction for wv Sort Prop
with wvk_mut := Induction for wvk Sort Prop.

Lemma wv_afterX_null r r' : wv AfterX r r' -> null r' = null r.
Proof. intros H. inversion H; subst; try reflexivity; try congruence. Qed.
Lemma wv_nonnil prev r r' : wv prev r r' -> r <> [] -> r' <> [].
Proof. intros H Hr. inversion H; subst; try congruence; try discriminate. destruct (opt_ws w); discriminate. Qed.

Lemma null_core_app k x : core k -> null (k ++ x) = false.
Proof. intros (Hh & _). destruct k; [cbn in Hh; tauto|reflexivity]. Qed.

Definition Pwv (prev : sib) (l l' : list tree) (_ : wv prev l l') : Prop := red_kids (is_start prev) l' = l.
Definition Pwvk (l l' : list tree) (_ : wvk l l') : Prop := red_kids true l' = l.

Lemma red_cons_X f s r : red_kids f (X s :: r) = (if null (spec s f (null r)) then [] else [X (spec s f (null r))]) ++ red_kids false r.
Proof. reflexivity. Qed.
Lemma red_cons_N f ks r : red_kids f (N ks :: r) = N (red_kids true ks) :: red_kids false r.
Proof. reflexivity. Qed.

Lemma red_opt_ws_first w rest : all_ws w -> rest <> [] ->
  red_kids true (opt_ws w ++ rest) = red_kids (null w) rest.
Proof.
  intros Hw Hr. unfold opt_ws. destruct (null w) eqn:E; [reflexivity|].
  cbn [app]. rewrite red_cons_X.
  assert (Hn : w <> []) by (destruct w; [discriminate|congruence]).
  rewrite spec_ws_only by assumption.
  destruct rest; [congruence|]. cbn [null andb orb app]. reflexivity.
Qed.

Theorem variant_erased : forall prev l l' (H : wv prev l l'), Pwv prev l l' H.
Proof.
  apply (wv_mut Pwv Pwvk); unfold Pwv, Pwvk.
  - reflexivity.
  - reflexivity.
  - (* trailing whitespace after the last N *)
    intros w Hw. unfold opt_ws. destruct (null w) eqn:E; [reflexivity|].
    rewrite red_cons_X. assert (Hn : w <> []) by (destruct w; [discriminate|congruence]).
    rewrite spec_ws_only by assumption. reflexivity.
  - (* first child is an N, optional leading whitespace *)
    intros w ks ks' r r' Hw Hk IHk Hr IHr.
    rewrite red_opt_ws_first by (assumption || discriminate).
    rewrite red_cons_N. cbn [is_start] in IHr. rewrite IHk, IHr. reflexivity.
  - intros prev ks ks' r r' Hp Hk IHk Hr IHr.
    rewrite red_cons_N. cbn [is_start] in IHr. rewrite IHk, IHr. reflexivity.
  - (* a text with content *)
    intros prev lead trail k w1 w2 r r' Hk Hp Hl Ht H1 H2 Hlead Htrail Hr IHr.
    rewrite red_cons_X. rewrite (wv_afterX_null _ _ Hr).
    rewrite spec_pad by assumption. cbn [is_start] in IHr. rewrite IHr.
    assert (E : (if is_start prev then [] else optsp (negb (null w1))) ++ k ++ (if null r then [] else optsp (negb (null w2)))
                = optsp lead ++ k ++ optsp trail).
    { f_equal; [|f_equal].
      - destruct prev; cbn [is_start].
        + rewrite Hl by reflexivity. reflexivity.
        + rewrite Hlead by discriminate. rewrite negb_involutive. reflexivity.
        + congruence.
      - destruct r as [|x r0]; cbn [null].
        + rewrite Ht by reflexivity. reflexivity.
        + rewrite Htrail by discriminate. rewrite negb_involutive. reflexivity. }
    rewrite E.
    replace (null (optsp lead ++ k ++ optsp trail)) with false.
    2:{ destruct lead; cbn [optsp app null]; [reflexivity|]. symmetry. apply null_core_app. exact Hk. }
    reflexivity.
  - (* a single space between siblings *)
    intros w r r' Hw Hn Hrn Hr IHr.
    rewrite red_cons_X. rewrite (wv_afterX_null _ _ Hr).
    rewrite spec_ws_only by assumption. cbn [is_start andb orb].
    destruct r as [|x r0]; [congruence|]. cbn [null]. cbn [is_start] in IHr. rewrite IHr. reflexivity.
  - (* only child, whitespace only *)
    intros w Hw Hn. rewrite red_cons_X. rewrite spec_ws_only by assumption. reflexivity.
  - intros l l' Hwv IH. exact IH.
Qed.
Print Assumptions variant_erased.
