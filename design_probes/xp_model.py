"""Blueprint of Tok.v / Parse.v: a functional re-statement of _delb/xpath/{tokenizer,parser}.py and the
constructors in ast.py, with every partial operation explicit.  Outcome:
  ("ok", ast)   ("xpe", position, message, unsupported?)   ("crash", exception_class_name)"""
import inspect
# ---- character classes (ranges copied from tokenizer.py; the translator will extract them) ----
NAME_START=[(0x41,0x5a),(0x5f,0x5f),(0x61,0x7a),(0xc0,0xd6),(0xd8,0xf6),(0xf8,0x2ff),(0x370,0x37d),(0x37f,0x1fff),(0x200c,0x200d),(0x2070,0x218f),(0x2c00,0x2fef),(0x3001,0xd7ff),(0xf900,0xfdcf),(0xfdf0,0xfffd),(0x10000,0xeffff)]
NAME_EXTRA=[(0x2e,0x2e),(0x30,0x39),(0xb7,0xb7),(0x300,0x36f),(0x203f,0x2040),(0x2d,0x2d)]
def in_ranges(c, rs): return any(a<=ord(c)<=b for a,b in rs)
def is_name_start(c): return in_ranges(c, NAME_START)
def is_name_char(c): return in_ranges(c, NAME_START) or in_ranges(c, NAME_EXTRA)
def is_digit(c): return c.isdigit() and c.isdecimal()   # regex \d == Unicode Nd
class Crash(Exception):
    def __init__(s, kind): s.kind=kind
class XPE(Exception):
    def __init__(s, position=None, message=None, unsupported=False): s.position=position; s.message=message; s.unsupported=unsupported

def scan_string(s, i):
    # (?P<d>["'])(\\.|[^\\])*?(?P=d)
    d=s[i]; j=i+1
    while j<len(s):
        if s[j]==d: return j+1
        if s[j]=="\\":
            if j+1<len(s) and s[j+1]!="\n": j+=2; continue
            return None
        j+=1
    return None
OPS2=["!=","<=",">="]
def grab(s, i):
    c=s[i]
    if c in "\"'":
        e=scan_string(s,i)
        if e is not None: return ("STRING", s[i:e])
    if is_digit(c):
        j=i
        while j<len(s) and is_digit(s[j]): j+=1
        return ("NUMBER", s[i:j])
    if is_name_start(c):
        j=i+1
        while j<len(s) and is_name_char(s[j]): j+=1
        return ("NAME", s[i:j])
    if s.startswith("//",i): return ("SLASH_SLASH","//")
    if c=="/": return ("SLASH","/")
    if c=="*": return ("ASTERISK","*")
    if s.startswith("::",i): return ("AXIS_SEPARATOR","::")
    if c==":": return ("COLON",":")
    if s.startswith("..",i): return ("DOT_DOT","..")
    if c==".": return ("DOT",".")
    if c=="[": return ("OPEN_BRACKET","[")
    if c=="]": return ("CLOSE_BRACKET","]")
    if c=="@": return ("STRUDEL","@")
    if c=="(": return ("OPEN_PARENS","(")
    if c==")": return ("CLOSE_PARENS",")")
    if c==",": return ("COMMA",",")
    if c=="|": return ("PASEQ","|")
    if c=="+": return ("OTHER_OPS","+")
    if c=="-": return ("OTHER_OPS","-")
    for o in OPS2:
        if s.startswith(o,i): return ("OTHER_OPS",o)
    if c in "<>=": return ("OTHER_OPS",c)
    if c in " \n\t":
        j=i
        while j<len(s) and s[j] in " \n\t": j+=1
        return ("WHITESPACE", s[i:j])
    return ("ERROR", None)
def tokenize(s):
    out=[]; i=0
    while i<len(s):
        t,v=grab(s,i)
        if t=="ERROR": raise XPE(position=i, message="Unrecognized token.")
        if t!="WHITESPACE": out.append((i,v,t))
        i+=len(v)
    return out
# tokens: (position, string, type); trees: python lists
def is_tok(x): return isinstance(x, tuple)
def cmp_pat(tokens, pattern):
    for t,p in zip(tokens,pattern):
        if is_tok(t):
            if t[2]!=p: return False
        else:
            if p is not None: return False
    return True
def all_match(tokens, pattern): return len(tokens)==len(pattern) and cmp_pat(tokens,pattern)
def init_match(tokens, pattern): return len(tokens)>=len(pattern) and cmp_pat(tokens,pattern)
COMPL={"OPEN_BRACKET":"CLOSE_BRACKET","OPEN_PARENS":"CLOSE_PARENS"}
def group(tokens):
    result=[]; openers=[]
    for i,tok in enumerate(tokens):
        if tok[2] in ("OPEN_BRACKET","OPEN_PARENS"): openers.append((i,tok))
        elif tok[2] in ("CLOSE_BRACKET","CLOSE_PARENS"):
            if not openers: raise Crash("IndexError")                       # openers.pop()
            sp,st=openers.pop()
            if tok[2]!=COMPL[st[2]]:
                raise XPE(position=tok[0], message="Closing `%s` doesn't match opening `%s` at position %d."%(tok[1],st[1],st[0]))
            if not openers:
                contents=group(tokens[sp+1:i])
                if contents: result.extend([st,contents,tok])
                else: result.extend((st,tok))
        elif not openers: result.append(tok)
    if openers:
        tok=openers[-1][1]
        raise XPE(position=tok[0], message="`%s` is never closed."%tok[1])
    return result
def expand_axes(tokens):
    out=[]
    for t in tokens:
        if is_tok(t):
            p=t[0]
            if t[2]=="SLASH_SLASH":
                out.extend([(p,"/","SLASH"),(p,"descendant-or-self","NAME"),(p,"::","AXIS_SEPARATOR"),(p,"node","NAME"),(p,"(","OPEN_PARENS"),(p,")","CLOSE_PARENS"),(p,"/","SLASH")]); continue
            if t[2]=="DOT":
                out.extend([(p,"self","NAME"),(p,"::","AXIS_SEPARATOR"),(p,"node","NAME"),(p,"(","OPEN_PARENS"),(p,")","CLOSE_PARENS")]); continue
            if t[2]=="DOT_DOT":
                out.extend([(p,"parent","NAME"),(p,"::","AXIS_SEPARATOR"),(p,"node","NAME"),(p,"(","OPEN_PARENS"),(p,")","CLOSE_PARENS")]); continue
        out.append(t)
    return out
def partition(sep, tokens):
    cur=[]; out=[]
    for t in tokens:
        if is_tok(t) and t[2]==sep:
            if cur: out.append(cur); cur=[]
        else: cur.append(t)
    out.append(cur)
    return out
GEN_AXES={"ancestor","ancestor_or_self","child","descendant","descendant_or_self","following","following_sibling","parent","preceding","preceding_sibling","self"}
def axis(name):
    # real code: generator = getattr(self, name.replace("-","_"), None) -- ANY non-None attribute of an Axis instance passes.
    nm=name.replace("-","_")
    if nm in GEN_AXES: return ("axis", nm)
    import _delb.xpath.ast as A
    probe=object.__new__(A.Axis)
    try: g=getattr(probe, nm, None)
    except Exception: g=None
    if g is None: raise XPE(message="Invalid axis specifier.")
    try: return ("axis", g.__name__)
    except Exception: return ("axis", "<junk>")
NODE_TYPES={"comment":"CommentNode","node":"TagNode","processing-instruction":"ProcessingInstructionNode","text":"TextNode"}
FUNCS=None
def func(name, args):
    global FUNCS
    if FUNCS is None:
        from _delb.plugins import plugin_manager
        FUNCS={}
        for k,f in plugin_manager.xpath_functions.items():
            ps=inspect.signature(f).parameters
            FUNCS[k]=(len(ps), tuple(ps.values())[-1].kind==inspect.Parameter.VAR_POSITIONAL)
    if name not in FUNCS: raise XPE(message="Unknown function: `%s`"%name)
    n,var=FUNCS[name]
    if n>1 and not var and n!=len(args)+1: raise XPE(message="Arguments to function `%s` don't match its signature."%name)
    return ("fn",name,tuple(args))
def parse_step(tokens):
    all_tokens=tuple(tokens)
    if init_match(tokens,("NAME","AXIS_SEPARATOR")):
        try: ax=axis(tokens[0][1])
        except XPE as e: e.position=tokens[0][0]; raise
        tokens=tokens[2:]
    else: ax=axis("child")
    if not tokens:
        if not all_tokens: raise Crash("IndexError")                        # all_tokens[-1]
        last=all_tokens[-1]
        if not is_tok(last): raise Crash("AssertionError")
        raise XPE(message="Missing node test.", position=last[0]+len(last[1]))
    if init_match(tokens,("NAME","COLON","NAME")) or init_match(tokens,("NAME","COLON","ASTERISK")):
        prefix=tokens[0][1]; tokens=tokens[2:]
    else: prefix=None
    if init_match(tokens,("NAME","OPEN_PARENS",None,"CLOSE_PARENS")):
        if tokens[0][1]!="processing-instruction": raise Crash("AssertionError")
        target=tokens[2][0]
        if not is_tok(target): raise Crash("AssertionError")
        nt=("pitest", target[1][1:-1]); tokens=tokens[4:]
    elif init_match(tokens,("NAME","OPEN_PARENS","CLOSE_PARENS")):
        if tokens[0][1] not in NODE_TYPES: raise Crash("KeyError")
        nt=("typetest", NODE_TYPES[tokens[0][1]]); tokens=tokens[3:]
    elif init_match(tokens,("ASTERISK",)): nt=("anyname",prefix); tokens=tokens[1:]
    elif init_match(tokens,("NAME",)): nt=("name",prefix,tokens[0][1]); tokens=tokens[1:]
    elif init_match(tokens,("STRUDEL","NAME")):
        raise XPE(position=tokens[0][0], message="Attribute lookup is not supported with intention. Please consult the documentation regarding the XPath implementation.", unsupported=True)
    else:
        if not is_tok(tokens[0]): raise Crash("AssertionError")
        raise XPE(message="Unrecognized node test.", position=tokens[0][0])
    preds=[]
    while tokens:
        if init_match(tokens,("OPEN_BRACKET",None,"CLOSE_BRACKET")):
            p=parse_expr(tokens[1])
            if p[0]=="val" and isinstance(p[1],int): p=("op","=",("fn","position",()),p)
            preds.append(p); tokens=tokens[3:]
        else:
            if not is_tok(tokens[-1]): raise Crash("AssertionError")
            raise XPE(position=tokens[-1][0], message="Unrecognized expression.")
    return ("step",ax,nt,tuple(preds))
def parse_expr(tokens):
    if all_match(tokens,("NUMBER",)):
        return ("val", int(tokens[0][1]))
    if all_match(tokens,("STRING",)): return ("val", tokens[0][1][1:-1])
    if all_match(tokens,("STRUDEL","NAME")): return ("hasattr",None,tokens[1][1])
    if all_match(tokens,("STRUDEL","NAME","COLON","NAME")): return ("hasattr",tokens[1][1],tokens[3][1])
    if all_match(tokens,("NAME","OPEN_PARENS",None,"CLOSE_PARENS")):
        args=[]
        for part in partition("COMMA", tokens[2]):
            a=parse_expr(part)
            if a[0]=="hasattr": a=("attrval",a[1],a[2])
            args.append(a)
        try: return func(tokens[0][1], args)
        except XPE as e: e.position=tokens[0][0]; raise
    if all_match(tokens,("NAME","OPEN_PARENS","CLOSE_PARENS")): return func(tokens[0][1], ())
    if all_match(tokens,("OPEN_PARENS",None,"CLOSE_PARENS")): return parse_expr(tokens[1])
    for typ,s in (("NAME","or"),("NAME","and"),("OTHER_OPS","="),("OTHER_OPS","!="),("OTHER_OPS","<="),("OTHER_OPS","<"),("OTHER_OPS",">="),("OTHER_OPS",">")):
        for i,t in enumerate(tokens):
            if not is_tok(t): continue
            if (t[2],t[1])==(typ,s):
                if not (0<i<len(tokens)-1): raise Crash("AssertionError")
                l=parse_expr(tokens[:i]); r=parse_expr(tokens[i+1:])
                if s not in("and","or"):
                    if l[0]=="hasattr": l=("attrval",l[1],l[2])
                    if r[0]=="hasattr": r=("attrval",r[1],r[2])
                return ("op",s,l,r)
    if not tokens: raise Crash("IndexError")                                # tokens[0] on empty: only via partition -> [] 
    if not is_tok(tokens[0]): raise Crash("AssertionError")
    raise XPE(position=tokens[0][0], message="Unrecognized predicate expression.")
def parse_path(tokens):
    if not tokens: raise XPE(message="Missing location path.")
    tokens=expand_axes(tokens)
    if not is_tok(tokens[0]): raise Crash("NotImplementedError")
    absolute=tokens[0][2]=="SLASH"
    return ("path", absolute, tuple(parse_step(x) for x in partition("SLASH",tokens)))
def parse(s):
    try:
        try:
            toks=group(tokenize(s))
            if any(is_tok(x) and x[2]=="PASEQ" for x in toks):
                return ("ok", ("expr", tuple(parse_path(x) for x in partition("PASEQ",toks))))
            return ("ok", ("expr",(parse_path(toks),)))
        except XPE as e:
            return ("xpe", 0 if e.position is None else e.position, e.message, e.unsupported)
    except Crash as c:
        return ("crash", c.kind)
    except RecursionError:
        return ("crash","RecursionError")
