From Coq Require Import List Arith Bool Lia.
Import ListNotations.
(* C05 in miniature: the explicit-stack loop of TagNode.iterate_descendants equals the recursive pre-order.
   The loop state is (candidate = head of `cur`, its following siblings = tail of `cur`, stack of pending sibling lists):
     yield candidate; if it is a tag: push its following siblings, descend to its first child; else go to its next sibling;
     while there is no candidate and the stack is non-empty: pop. *)
Inductive tree := N (id : nat) (kids : list tree) | X (id : nat).
Definition pre_items (rec : tree -> list tree) := fix go (l : list tree) : list tree :=
  match l with [] => [] | k :: r => k :: rec k ++ go r end.
Fixpoint desc (t : tree) : list tree := match t with N _ ks => pre_items desc ks | X _ => [] end.
Definition pre_list := pre_items desc.

Fixpoint loop (fuel : nat) (cur : list tree) (stack : list (list tree)) : option (list tree) :=
  match fuel with
  | O => None
  | S f =>
      match cur with
      | [] => match stack with [] => Some [] | s :: st => loop f s st end
      | k :: r =>
          match k with
          | N _ ks => option_map (cons k) (loop f ks (r :: stack))
          | X _ => option_map (cons k) (loop f r stack)
          end
      end
  end.

Fixpoint size (t : tree) : nat := match t with N _ ks => S ((fix go l := match l with [] => 0 | k :: r => size k + go r end) ks) | X _ => 1 end.
Definition sizes (l : list tree) : nat := (fix go l := match l with [] => 0 | k :: r => size k + go r end) l.
Lemma sizes_cons k r : sizes (k :: r) = size k + sizes r. Proof. reflexivity. Qed.
Lemma size_N i ks : size (N i ks) = S (sizes ks). Proof. reflexivity. Qed.
Fixpoint mst (st : list (list tree)) : nat := match st with [] => 0 | l :: r => S (2 * sizes l) + mst r end.

Theorem loop_is_preorder : forall fuel cur stack, (2 * sizes cur + mst stack < fuel)%nat ->
  loop fuel cur stack = Some (pre_list cur ++ flat_map pre_list stack).
Proof.
  induction fuel as [|f IH]; intros cur stack Hf; [lia|].
  destruct cur as [|k r]; cbn [loop].
  - destruct stack as [|s st]; [reflexivity|]. cbn [mst] in Hf.
    rewrite IH by (cbn [sizes] in *; lia). reflexivity.
  - rewrite sizes_cons in Hf. destruct k as [i ks|i].
    + rewrite size_N in Hf. rewrite IH by (cbn [mst]; lia).
      cbn [option_map flat_map]. f_equal.
      change (pre_list (N i ks :: r)) with (N i ks :: pre_list ks ++ pre_list r).
      cbn [app]. f_equal. rewrite <- !app_assoc. reflexivity.
    + cbn [size] in Hf. rewrite IH by lia. reflexivity.
Qed.
Corollary iterate_descendants_is_preorder i ks : loop (S (2 * sizes ks)) ks [] = Some (desc (N i ks)).
Proof. rewrite loop_is_preorder by (cbn [mst]; lia). cbn [flat_map]. rewrite app_nil_r. reflexivity. Qed.
Print Assumptions loop_is_preorder.
