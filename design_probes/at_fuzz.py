import random, sys, gc
gc.disable()
from delb import *
import at_model as M
NS=["","d","e"]; NAMES=["k","j","h"]
def mknode(kind):
    if kind=="plain": return new_tag_node("n"), None
    if kind=="created-ns": return new_tag_node("n", namespace="d"), None
    if kind=="parsed-default": return Document('<r xmlns="d"><n/></r>').root[0], "d"
    if kind=="parsed-prefixed": return Document('<r xmlns:p="d"><p:n/></r>').root[0], None
    if kind=="parsed-default-other": return Document('<r xmlns="e"><p:n xmlns:p="d"/></r>').root[0], "e"
    if kind=="moved": 
        r=Document('<r xmlns="d"/>').root; n=new_tag_node("n", {"k":"0"}, namespace="d"); r.append_children(n); return n,"d"
def run(seed,kind):
    rnd=random.Random(seed); node,dns=mknode(kind); KEEP=[node, node.document]
    st=M.St(node.namespace, dns)
    if kind=="moved": st.store=[("{d}k","0")]
    held=[]  # (real obj, model oid)
    log=[]
    def acc():
        ns=rnd.choice(NS); nm=rnd.choice(NAMES); f=rnd.choice(["tuple","clark","local"])
        if f=="local": return nm
        if f=="clark" and ns: return "{%s}%s"%(ns,nm)
        return (ns,nm)
    def both(fr, fm):
        try: r=("ok", fr())
        except KeyError: r=("KeyError",)
        except AssertionError: r=("crash","AssertionError")
        except Exception as e: r=("crash",type(e).__name__)
        try: m=("ok", fm())
        except M.KeyErr: m=("KeyError",)
        except M.Crash as c: m=("crash",c.kind)
        return r,m
    for step in range(30):
        op=rnd.choice(["set","set","del","pop","get","contains","hold","value","rename_local","rename_ns","read"])
        a=acc(); log.append((op,a))
        if op=="set":
            v="v%d"%step; r,m=both(lambda: node.attributes.__setitem__(a,v), lambda: M.setitem(st,a,v))
        elif op=="del": r,m=both(lambda: node.attributes.__delitem__(a), lambda: M.delitem(st,a))
        elif op=="pop":
            r,m=both(lambda: node.attributes.pop(a,None), lambda: M.pop(st,a))
            if r[0]=="ok" and m[0]=="ok":
                if (r[1] is None)!=(m[1] is None): return ("pop-presence",log)
                if r[1] is not None: held.append((r[1],m[1]))
                r=m=("ok",None)
        elif op=="get" or op=="hold":
            r,m=both(lambda: node.attributes[a], lambda: M.getitem(st,a))
            if r[0]=="ok" and m[0]=="ok":
                held.append((r[1],m[1])); r=m=("ok",None)
        elif op=="contains": r,m=both(lambda: a in node.attributes, lambda: M.contains(st,a))
        elif op=="value" and held:
            h=rnd.choice(held); v="hv%d"%step
            r,m=both(lambda: setattr(h[0],"value",v), lambda: M.obj_set_value(st,h[1],v))
        elif op in("rename_local","rename_ns") and held:
            h=rnd.choice(held)
            if op=="rename_local":
                nm=rnd.choice(NAMES); r,m=both(lambda: setattr(h[0],"local_name",nm), lambda: M.set_new_key(st,h[1],st.objs[h[1]][2][0],nm))
            else:
                ns=rnd.choice(NS); r,m=both(lambda: setattr(h[0],"namespace",ns), lambda: M.set_new_key(st,h[1],ns,st.objs[h[1]][2][1]))
        else: continue
        if r[0]!=m[0] or (r[0]=="crash" and r!=m) or (r[0]=="ok" and op=="contains" and r!=m): return ("outcome %r %r"%(r,m), log)
        # compare state
        if list(node._etree_obj.attrib.items())!=st.store: return ("store %r %r"%(list(node._etree_obj.attrib.items()), st.store), log)
        if list(node.attributes)!=M.iterkeys(st): return ("iter",log)
        for ro,mo in held:
            rv,mv=both(lambda: ro.value, lambda: M.obj_value(st,mo))
            if rv!=mv: return ("held %r %r"%(rv,mv),log)
            if (ro.namespace,ro.local_name)!=st.objs[mo][2]: return ("held-key",log)
        # cache identity: objects returned for same key identical?
    return None
bad={}
for kind in ["plain","created-ns","parsed-default","parsed-prefixed","parsed-default-other","moved"]:
    for seed in range(1500):
        r=run(seed,kind)
        if r: bad.setdefault((kind,r[0][:60]),[]).append((seed,r[1][-5:]))
for k,v in bad.items(): print(len(v),k,v[0])
print("mismatches",sum(len(v) for v in bad.values()))
