"""Blueprint of Conc/CTree.v + COps.v: the lxml slots and text chains delb maintains, as plain data.
 element  = {"id", "kind": tag|c|pi, "data": chain, "kids": [element...], "tail": chain, "parent": element|None}
 chain    = {"hid": id of the head text object or None (pristine placeholder), "slot": None|str (lxml text/tail),
             "app": [ {"id", "s"} ... ] }                      (appended text objects hold their own content)
 loose text = {"id","s"} in world["loose_text"];  every id is the Python object identity rank assigned by the harness."""
class Rejected(Exception):
    def __init__(s,k): s.kind=k
def chain(): return {"hid":None,"slot":None,"app":[]}
def exists(ch): return ch["slot"] is not None
def el(id_, kind): return {"id":id_,"kind":kind,"data":chain(),"kids":[],"tail":chain(),"parent":None}

class World:
    def __init__(s): s.loose_text={}   # id -> content (DETACHED text objects)
    # ---- locating text objects ----
    def find_text(s, roots, tid):
        """returns ("loose",) | ("head"|"app", owner_element, "data"|"tail", index_in_app)"""
        if tid in s.loose_text: return ("loose",)
        def walk(e):
            for which in ("data","tail"):
                ch=e[which]
                if ch["hid"]==tid and exists(ch): return ("head",e,which,None)
                if ch["hid"]==tid and not exists(ch): return ("ghost",e,which,None)
                for i,t in enumerate(ch["app"]):
                    if t["id"]==tid: return ("app",e,which,i)
            for k in e["kids"]:
                r=walk(k)
                if r: return r
            return None
        for r in roots:
            x=walk(r)
            if x: return x
        return None
# ---- views ----
def chain_texts(ch):
    if not exists(ch): return []
    return [("text",ch["hid"],ch["slot"])]+[("text",t["id"],t["s"]) for t in ch["app"]]
def children(e):
    out=chain_texts(e["data"])
    for k in e["kids"]:
        out.append(("el",k["id"],k)); out.extend(chain_texts(k["tail"]))
    return out
def kid_index(e): return next(i for i,k in enumerate(e["parent"]["kids"]) if k is e)
# ---- primitive moves (mirror the methods of the same names) ----
def take_chain(ch):
    """detach the whole chain from a slot, leaving a pristine placeholder; returns the chain as a new dict"""
    new={"hid":ch["hid"],"slot":ch["slot"],"app":ch["app"]}
    ch["hid"]=None; ch["slot"]=None; ch["app"]=[]
    return new
def put_chain(ch, src):
    ch["hid"]=src["hid"]; ch["slot"]=src["slot"]; ch["app"]=src["app"]
def el_add_following_el(E, N):
    """_ElementWrappingNode._add_following_sibling, element case.  N is parentless with an empty tail."""
    P=E["parent"]; i=kid_index(E)
    if exists(E["tail"]):
        put_chain(N["tail"], take_chain(E["tail"]))
    P["kids"].insert(i+1,N); N["parent"]=P
def el_add_following_text(W, E, tid):
    s=W.loose_text.pop(tid)
    ch=E["tail"]
    if exists(ch):
        ch["app"].insert(0, {"id":ch["hid"],"s":ch["slot"]}); ch["hid"]=tid; ch["slot"]=s
    else:
        ch["hid"]=tid; ch["slot"]=s; ch["app"]=[]      # _bind_to_tail on a slot that is None: appended chain of a ghost head is dropped from view
def text_loc_owner_chain(loc): return loc[1][loc[2]]
def text_add_following_text(W, loc, tid):
    s=W.loose_text.pop(tid); ch=text_loc_owner_chain(loc)
    pos = 0 if loc[0]=="head" else loc[3]+1
    ch["app"].insert(pos, {"id":tid,"s":s})
def text_add_following_el(W, loc, N):
    """_add_next_element_wrapping_node: split the chain after the text; the right part becomes N's tail chain"""
    owner=loc[1]; which=loc[2]; ch=owner[which]
    pos = 0 if loc[0]=="head" else loc[3]+1
    right=ch["app"][pos:]; ch["app"]=ch["app"][:pos]
    if which=="data":
        owner["kids"].insert(0,N); N["parent"]=owner
    else:
        P=owner["parent"]; P["kids"].insert(kid_index(owner)+1, N); N["parent"]=P
    if right:
        h=right[0]; N["tail"]["hid"]=h["id"]; N["tail"]["slot"]=h["s"]; N["tail"]["app"]=right[1:]
def text_add_preceding_text(W, loc, tid):
    s=W.loose_text.pop(tid); ch=text_loc_owner_chain(loc)
    if loc[0]=="head":
        ch["app"].insert(0, {"id":ch["hid"],"s":ch["slot"]}); ch["hid"]=tid; ch["slot"]=s
    else:
        ch["app"].insert(loc[3], {"id":tid,"s":s})
def text_add_preceding_el(W, loc, N):
    owner=loc[1]; which=loc[2]; ch=owner[which]
    if loc[0]=="head":
        if which=="data":
            owner["kids"].insert(0,N); N["parent"]=owner
            put_chain(N["tail"], take_chain(ch))
        else:
            el_add_following_el(owner, N)
    else:
        # APPENDED: self._bound_to._add_following_sibling(node)
        prev = ("head",owner,which,None) if loc[3]==0 else ("app",owner,which,loc[3]-1)
        text_add_following_el(W, prev, N)
def add_first_child_el(P,N): P["kids"].append(N); N["parent"]=P
def add_first_child_text(W,P,tid):
    s=W.loose_text.pop(tid); P["data"]["hid"]=tid; P["data"]["slot"]=s; P["data"]["app"]=[]
def el_detach(E):
    P=E["parent"]
    if P is None: return
    if exists(E["tail"]):
        i=kid_index(E)
        moved=take_chain(E["tail"])
        if i==0 and not exists(P["data"]):
            put_chain(P["data"], moved)
        else:
            tgt = P["kids"][i-1]["tail"] if i>0 else P["data"]
            if i>0 and not exists(tgt):
                put_chain(tgt, moved)          # previous node is the element itself
            else:
                tgt["app"].append({"id":moved["hid"],"s":moved["slot"]}); tgt["app"].extend(moved["app"])
    P["kids"].remove(E); E["parent"]=None
def text_detach(W, loc):
    if loc[0]=="loose": return
    ch=text_loc_owner_chain(loc)
    if loc[0]=="head":
        tid=ch["hid"]; s=ch["slot"]
        if ch["app"]:
            h=ch["app"].pop(0); ch["hid"]=h["id"]; ch["slot"]=h["s"]
        else:
            ch["hid"]=None; ch["slot"]=None
    else:
        t=ch["app"].pop(loc[3]); tid=t["id"]; s=t["s"]
    W.loose_text[tid]=s or ""
def set_content(W, loc, tid, s):
    if loc[0]=="loose": W.loose_text[tid]=s; return
    ch=text_loc_owner_chain(loc)
    if loc[0] in("head","ghost"): ch["slot"]= s or None
    else: ch["app"][loc[3]]["s"]=s
def merge_chain(ch):
    if exists(ch) and ch["app"]:
        ch["slot"]=ch["slot"]+"".join(t["s"] for t in ch["app"]); ch["app"]=[]
