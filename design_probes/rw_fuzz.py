import random, sys, gc, warnings
gc.disable(); warnings.simplefilter("ignore")
from delb import *
from _delb.nodes import TextNode, TagNode, CommentNode, ProcessingInstructionNode
import rw_model as M
def plain(r):
    with altered_default_filters():
        if isinstance(r, TagNode): return ("tag", {(a.namespace,a.local_name):a.value for a in r.attributes.values()}, [plain(c) for c in r.iterate_children()])
        if isinstance(r, TextNode): return ("text", r.content)
        if isinstance(r, CommentNode): return ("c", r.content)
        return ("pi", r.target, r.content)
rnd=random.Random(int(sys.argv[2]) if len(sys.argv)>2 else 1)
WS=[" ","  ","\n","\t"," \n "," "," ",""]
def txt():
    parts=[rnd.choice(WS)]
    for _ in range(rnd.randint(0,3)): parts+= [rnd.choice(["a","bc","&amp;"]), rnd.choice(WS)]
    return "".join(parts)
def gen(depth):
    out=[]
    for _ in range(rnd.randint(0,4)):
        q=rnd.random()
        if q<.45: out.append(txt())
        elif q<.55: out.append("<!--c-->")
        elif q<.6: out.append("<?p q?>")
        elif depth<3:
            a=rnd.choice([""]*5+[' xml:space="preserve"',' xml:space="default"',' xml:space="bogus"'])
            out.append("<e%s>%s</e>"%(a,gen(depth+1)))
    return "".join(out)
N=int(sys.argv[1]) if len(sys.argv)>1 else 3000
ADJ=float(sys.argv[3]) if len(sys.argv)>3 else .3
bad={}
for i in range(N):
    src="<r>"+gen(0)+"</r>"
    d=Document(src)
    # sometimes add adjacent text nodes through the API
    if rnd.random()<ADJ:
        with altered_default_filters():
            tags=[d.root]+[n for n in d.root.iterate_descendants(is_tag_node)]
            t=rnd.choice(tags); t.append_children(txt() or "z", txt() or " ")
    before=plain(d.root)
    exp=M.reduce(before)
    d.reduce_whitespace()
    got=plain(d.root)
    if got!=exp: bad.setdefault("model!=impl",[]).append((src,got,exp)); continue
    if M.reduce(exp)!=exp: bad.setdefault("not-idempotent",[]).append((src,exp,M.reduce(exp)))
    d2=Document(src, ParserOptions(reduce_whitespace=True))
    if "append" and False: pass
for k,v in bad.items():
    v.sort(key=lambda x:len(x[0])); print(len(v),k,str(v[0])[:700])
print("runs",N,"bad",sum(len(v) for v in bad.values()))
