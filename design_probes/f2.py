import random, sys, traceback, itertools
from delb import *
from _delb.nodes import TextNode, TagNode, CommentNode, ProcessingInstructionNode, NodeBase, _wrapper_cache
from _delb.exceptions import InvalidOperation
def dump(r):
    # structural dump with identities
    with altered_default_filters():
        if isinstance(r, TagNode):
            return ("tag", id(r), r.universal_name, tuple(sorted((k, r.attributes[k].value) for k in r.attributes)), tuple(dump(c) for c in r.iterate_children()))
        if isinstance(r, TextNode): return ("text", id(r), r.content, r._position)
        if isinstance(r, CommentNode): return ("c", id(r), r.content)
        return ("pi", id(r), r.target, r.content)
def nodes_of(r):
    out=[r]
    with altered_default_filters():
        for n in r.iterate_descendants(): out.append(n)
    return out
KEEP=None
def mk():
    d1 = Document('<r>a<x>p<i/>q</x>b<!--c-->d<?p q?><y/></r>')
    r = d1.root
    with altered_default_filters():
        h1=r.insert_children(1, "a2")          # chain in data
        h2=r[2].add_following_siblings("b0")   # after x: tail chain [b0, b]
        h3=r[2][0].add_following_siblings("p2")
        h0=nodes_of(r)
    d2 = Document('<!--pro--><s><t/>u</s><!--epi-->')
    global KEEP
    KEEP = nodes_of(d1.root)+nodes_of(d2.root)
    return d1, d2
res={}
def record(kind, detail): res.setdefault(kind,[]).append(detail)
d1,d2 = mk()
N1 = len(nodes_of(d1.root)); N2=len(nodes_of(d2.root))
ops = ["append","prepend","insert0","insertN","follow","precede","replace","setitem"]
for op in ops:
  for ti in range(N1):
    for oi in range(N1+N2):
        d1,d2 = mk()
        n1 = nodes_of(d1.root); n2 = nodes_of(d2.root)
        target = n1[ti]; offered = (n1+n2)[oi]
        with altered_default_filters():
            if offered.parent is None and offered.fetch_preceding_sibling() is None and offered._fetch_following_sibling() is None: 
                pass  # roots: offered root of a document -> has no parent; but d2.root has comment siblings
            if op in ("append","prepend","insert0","insertN","setitem") and not isinstance(target, TagNode): continue
            if op in ("follow","precede","replace") and target.parent is None: continue
            if op=="setitem" and len(target)==0: continue
            before = (dump(d1.root), dump(d2.root), [str(x) for x in d2.prologue], [str(x) for x in d2.epilogue])
            try:
                if op=="append": target.append_children(offered)
                elif op=="prepend": target.prepend_children(offered)
                elif op=="insert0": target.insert_children(0, offered)
                elif op=="insertN": target.insert_children(len(target), offered)
                elif op=="follow": target.add_following_siblings(offered)
                elif op=="precede": target.add_preceding_siblings(offered)
                elif op=="replace": target.replace_with(offered)
                elif op=="setitem": target[0] = offered
                exc=None
            except Exception as e:
                exc=type(e).__name__
            after = (dump(d1.root), dump(d2.root), [str(x) for x in d2.prologue], [str(x) for x in d2.epilogue])
            attached = not (offered is d2.root and False)
            if exc is None:
                record("ACCEPTED-attached", (op, ti, oi, str(offered)[:20]))
            elif exc!="InvalidOperation":
                record("EXC-"+exc, (op,ti,oi,str(offered)[:20], before!=after))
            if exc is not None and before!=after:
                record("CHANGED-on-reject", (op,ti,oi,exc))
for k,v in res.items(): print(k, len(v), v[:4])
# other rejections
def T(f):
    try: f(); return "OK"
    except Exception as e: return type(e).__name__
d1,d2=mk()
with altered_default_filters():
    print("detach doc root", T(lambda: d1.root.detach()), "replace root", T(lambda: d1.root.replace_with(tag("z"))), "retain parentless", T(lambda: new_tag_node("q").detach(retain_child_nodes=True)))
    print("root sibling text", T(lambda: d1.root.add_following_siblings("x")), T(lambda: d1.root.add_preceding_siblings("x")), "tag", T(lambda: d1.root.add_following_siblings(tag("x"))), T(lambda: d1.root.add_following_siblings(new_tag_node("x"))), "comment ok", T(lambda: d1.root.add_following_siblings(new_comment_node("x"))))
    print("prologue comment + text", T(lambda: d2.prologue[0].add_following_siblings("x")), T(lambda: d2.prologue[0].add_following_siblings(new_tag_node("x"))), T(lambda: d2.prologue[0].add_following_siblings(new_comment_node("y"))), str(d2))
    q = new_tag_node("q")
    print("parentless non-doc tag sibling:", T(lambda: q.add_following_siblings("x")), T(lambda: q.add_following_siblings(new_comment_node("x"))), T(lambda: q.add_following_siblings(new_tag_node("x"))))
    t = TextNode("loose"); c = new_comment_node("lc")
    print("loose text sibling:", T(lambda: t.add_following_siblings("x")), T(lambda: t.add_following_siblings(tag("x"))), T(lambda: t.add_preceding_siblings(new_comment_node("x"))), "loose comment:", T(lambda: c.add_following_siblings("x")), T(lambda: c.add_following_siblings(new_comment_node("x"))), T(lambda: c.add_following_siblings(new_tag_node("x"))))
    print("insert oob", T(lambda: d1.root.insert_children(99, "x")), T(lambda: d1.root.insert_children(-1, "x")), "setitem oob", T(lambda: d1.root.__setitem__(99,"x")), "getitem oob", T(lambda: d1.root[99]), "delitem oob", T(lambda: d1.root.__delitem__(99)))
    print("comment", T(lambda: new_comment_node("a--b")), T(lambda: new_comment_node("a-")), T(lambda: new_comment_node("-")), T(lambda: new_comment_node("")), "pi", T(lambda: new_processing_instruction_node("xml","")), T(lambda: new_processing_instruction_node("","")), T(lambda: new_processing_instruction_node("XmL","")), T(lambda: new_processing_instruction_node("a b","")), T(lambda: new_processing_instruction_node("1","")))
    cm = new_comment_node("ok"); print("set content", T(lambda: setattr(cm,"content","x--y")), cm.content)
    d3 = Document("<a/>"); print("doc root set attached:", T(lambda: setattr(d3, "root", d1.root[2])), T(lambda: setattr(d3,"root","x")), T(lambda: setattr(d3,"root", d1.root)))
