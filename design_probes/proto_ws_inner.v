From Coq Require Import List NArith Bool Lia.
Import ListNotations.
Require Import Base proto_ws_padding.

(* extension needed for line wrapping: inner single spaces of a text may be replaced by whitespace runs.
   k' is an "inner variant" of the core k when it has non-whitespace ends and collapses to k. *)
Definition inner_variant (k k' : str) : Prop := head_nows k' /\ last_nows k' /\ collapse k' = k.

Lemma collapse_pad' w1 k k' w2 : all_ws w1 -> all_ws w2 -> inner_variant k k' ->
  collapse (w1 ++ k' ++ w2) = optsp (negb (null w1)) ++ k ++ optsp (negb (null w2)).
Proof.
  intros H1 H2 (Hh & Hl & Hc). unfold collapse. rewrite collapse_aux_ws_prefix by exact H1. cbn [orb].
  assert (E : collapse_aux (negb (null w1)) (k' ++ w2) = k ++ optsp (negb (null w2))).
  { rewrite collapse_aux_app_nows_last by exact Hl.
    replace (collapse_aux (negb (null w1)) k') with k.
    2:{ destruct (negb (null w1)); [rewrite collapse_true_core by exact Hh|]; symmetry; exact Hc. }
    f_equal. rewrite <- (app_nil_r w2) at 1. rewrite collapse_aux_ws_prefix by exact H2. cbn. rewrite app_nil_r.
    destruct (null w2); reflexivity. }
  rewrite E. destruct (null w1); reflexivity.
Qed.

(* a wrapped paragraph is an inner variant: joining lines with newline+indentation instead of the single spaces *)
Fixpoint join_with (sep : str) (ls : list str) : str :=
  match ls with [] => [] | [l] => l | l :: r => l ++ sep ++ join_with sep r end.
Lemma collapse_aux_core_then_ws k sep rest b :
  last_nows k -> all_ws sep -> sep <> [] -> 
  collapse_aux b (k ++ sep ++ rest) = collapse_aux b k ++ [SP] ++ collapse_aux true rest.
Proof.
  intros Hl Hs Hn. rewrite collapse_aux_app_nows_last by exact Hl. f_equal.
  rewrite collapse_aux_ws_prefix by exact Hs. cbn [orb].
  destruct sep; [congruence|]. reflexivity.
Qed.
Print Assumptions collapse_pad'.
