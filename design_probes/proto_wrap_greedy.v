From Coq Require Import List NArith ZArith Bool Lia.
Import ListNotations.
Definition char := N.
Definition str := list char.
Definition SP : char := 32%N.
Open Scope Z_scope.

(* ---------- Python string primitives the translator maps to (indices are Python ints = Z) ---------- *)
Definition py_len (s : str) : Z := Z.of_nat (length s).
(* s[:i] and s[i:] for 0 <= i (the only uses in _wrap_text) *)
Definition py_slice_to (s : str) (i : Z) : str := firstn (Z.to_nat i) s.
Definition py_slice_from (s : str) (i : Z) : str := skipn (Z.to_nat i) s.
(* index of the first c at position >= start, or -1 *)
Fixpoint find_nat (c : char) (s : str) : option nat :=
  match s with [] => None | x :: r => if N.eqb x c then Some 0%nat else option_map S (find_nat c r) end.
Definition py_find1 (s : str) (c : char) (start : Z) : Z :=
  match find_nat c (skipn (Z.to_nat start) s) with
  | Some i => Z.max 0 start + Z.of_nat i
  | None => -1
  end.
(* index of the last c at position < end, or -1   (start = 0) *)
Fixpoint rfind_nat (c : char) (s : str) : option nat :=
  match s with
  | [] => None
  | x :: r => match rfind_nat c r with Some i => Some (S i) | None => if N.eqb x c then Some 0%nat else None end
  end.
Definition py_rfind1 (s : str) (c : char) (stop : Z) : Z :=
  match rfind_nat c (firstn (Z.to_nat stop) s) with Some i => Z.of_nat i | None => -1 end.

(* ---------- the shape the translator emits for TextWrappingSerializer._wrap_text ---------- *)
Definition wrap_step (text : str) (width : Z) : list str * option str :=
  let index := py_rfind1 text SP (width + 1) in
  if index >? -1 then ([py_slice_to text index], Some (py_slice_from text (index + 1)))
  else let index := py_find1 text SP width in
       if index >? 0 then ([py_slice_to text index], Some (py_slice_from text (index + 1)))
       else ([text], None).
Fixpoint wrap_loop (fuel : nat) (text : str) (width : Z) : option (list str) :=
  match fuel with
  | O => None
  | S f =>
      if py_len text >? width then
        let '(out, nxt) := wrap_step text width in
        match nxt with
        | Some t' => option_map (app out) (wrap_loop f t' width)
        | None => Some out
        end
      else Some (match text with [] => [] | _ => [text] end)
  end.
Definition wrap_text (text : str) (width : Z) : option (list str) := wrap_loop (S (length text)) text width.

(* ---------- facts about the primitives ---------- *)
Lemma find_nat_spec c s i : find_nat c s = Some i ->
  nth_error s i = Some c /\ (forall j, (j < i)%nat -> nth_error s j <> Some c).
Proof.
  revert i. induction s as [|x r IH]; cbn; [discriminate|]. intros i.
  destruct (N.eqb_spec x c) as [->|Hne].
  - intros [= <-]. split; [reflexivity|]. intros j Hj. lia.
  - destruct (find_nat c r) as [k|] eqn:E; cbn; [|discriminate]. intros [= <-].
    destruct (IH k eq_refl) as [H1 H2]. split; [exact H1|].
    intros [|j] Hj; cbn; [congruence|]. apply H2. lia.
Qed.
Lemma find_nat_none c s : find_nat c s = None -> ~ In c s.
Proof.
  induction s as [|x r IH]; cbn; [tauto|]. destruct (N.eqb_spec x c) as [->|Hne]; [discriminate|].
  destruct (find_nat c r); cbn; [discriminate|]. intros _ [H|H]; [congruence|]. apply IH; auto.
Qed.
Lemma rfind_nat_spec c s i : rfind_nat c s = Some i ->
  nth_error s i = Some c /\ (forall j, (i < j)%nat -> nth_error s j <> Some c).
Proof.
  revert i. induction s as [|x r IH]; cbn; [discriminate|]. intros i.
  destruct (rfind_nat c r) as [k|] eqn:E.
  - intros [= <-]. destruct (IH k eq_refl) as [H1 H2]. split; [exact H1|].
    intros [|j] Hj; [lia|]. cbn. apply H2. lia.
  - destruct (N.eqb_spec x c) as [->|Hne]; [|discriminate]. intros [= <-]. split; [reflexivity|].
    intros [|j] Hj; [lia|]. cbn. intros Hn.
    assert (Hin : In c r) by (eapply nth_error_In; exact Hn).
    clear -E Hin. induction r as [|y r IH]; [destruct Hin|]. cbn in E.
    destruct (rfind_nat c r); [discriminate|]. destruct (N.eqb_spec y c); [discriminate|].
    destruct Hin as [->|Hin]; [congruence|]. apply IH; auto.
Qed.
Lemma rfind_nat_none c s : rfind_nat c s = None -> ~ In c s.
Proof.
  induction s as [|x r IH]; cbn; [tauto|]. destruct (rfind_nat c r); [discriminate|].
  destruct (N.eqb_spec x c) as [->|Hne]; [discriminate|]. intros _ [H|H]; [congruence|]. apply IH; auto.
Qed.

(* ---------- what one step does, in terms of the text ---------- *)
Definition no_sp (s : str) : Prop := ~ In SP s.

(* the step relation the theorem is about: text = line ++ [SP] ++ rest with the greedy side conditions *)
Inductive step_spec (width : nat) (text : str) : list str -> option str -> Prop :=
| step_break line rest :
    text = line ++ SP :: rest -> (length line <= width)%nat ->
    (* no later break opportunity within the width: the next word does not fit *)
    (forall w rest', rest = w ++ SP :: rest' -> no_sp w -> (width < length line + 1 + length w)%nat) ->
    (no_sp rest -> (width < length line + 1 + length rest)%nat) ->
    step_spec width text [line] (Some rest)
| step_long line rest :
    text = line ++ SP :: rest -> no_sp line -> (width < length line)%nat ->
    step_spec width text [line] (Some rest)
| step_last : no_sp text -> step_spec width text [text] None.

Lemma firstn_skipn_mid (s : str) i c : nth_error s i = Some c -> s = firstn i s ++ c :: skipn (S i) s.
Proof.
  revert i. induction s as [|x r IH]; intros [|i]; cbn; try discriminate.
  - intros [= ->]. reflexivity.
  - intros H. f_equal. apply IH. exact H.
Qed.

Lemma nth_error_firstn_lt {A} (l : list A) n i : (i < n)%nat -> nth_error (firstn n l) i = nth_error l i.
Proof.
  revert n i. induction l as [|x r IH]; intros [|n] [|i] H; cbn; try reflexivity; try lia.
  apply IH. lia.
Qed.

Lemma wrap_step_spec text (width : nat) : (width < length text)%nat -> (0 < width)%nat ->
  let '(out, nxt) := wrap_step text (Z.of_nat width) in step_spec width text out nxt.
Proof.
  intros Hlen Hw. unfold wrap_step, py_rfind1, py_find1, py_slice_to, py_slice_from.
  replace (Z.to_nat (Z.of_nat width + 1)) with (S width) by lia.
  destruct (rfind_nat SP (firstn (S width) text)) as [i|] eqn:Er.
  - (* a space within the first width+1 characters *)
    replace (Z.of_nat i >? -1) with true by (symmetry; apply Z.gtb_lt; lia).
    replace (Z.to_nat (Z.of_nat i)) with i by lia. replace (Z.to_nat (Z.of_nat i + 1)) with (S i) by lia.
    destruct (rfind_nat_spec _ _ _ Er) as [Hi Hafter].
    assert (Hil : (i < S width)%nat).
    { assert (Hne : nth_error (firstn (S width) text) i <> None) by congruence. apply nth_error_Some in Hne. rewrite firstn_length in Hne. lia. }
    assert (Hi' : nth_error text i = Some SP).
    { rewrite <- (firstn_skipn (S width) text). rewrite nth_error_app1 by (rewrite firstn_length; lia). exact Hi. }
    apply step_break.
    + apply firstn_skipn_mid. exact Hi'.
    + rewrite firstn_length. lia.
    + intros w rest' Hrest Hnw. rewrite firstn_length. 
      destruct (Nat.le_gt_cases (i + 1 + length w) width) as [Hfit|Hno]; [|lia]. exfalso.
      (* then the space after w lies within the first width+1 characters, after i *)
      apply (Hafter (i + 1 + length w)%nat); [lia|].
      rewrite nth_error_firstn_lt by lia.
      rewrite (firstn_skipn_mid text i SP Hi'). rewrite Hrest.
      rewrite nth_error_app2 by (rewrite firstn_length; lia). rewrite firstn_length.
      replace (i + 1 + length w - Nat.min i (length text))%nat with (S (length w)) by lia. cbn.
      rewrite nth_error_app2 by lia. replace (length w - length w)%nat with 0%nat by lia. reflexivity.
    + intros Hn. rewrite firstn_length.
      assert (length text = i + 1 + length (skipn (S i) text))%nat.
      { rewrite skipn_length. assert (i < length text)%nat by (apply nth_error_Some; congruence). lia. }
      lia.
  - (* no space there: look for the first space at or after width *)
    replace (-1 >? -1) with false by reflexivity.
    replace (Z.to_nat (Z.of_nat width)) with width by lia.
    pose proof (rfind_nat_none _ _ Er) as Hnone.
    destruct (find_nat SP (skipn width text)) as [j|] eqn:Ef.
    + replace (Z.max 0 (Z.of_nat width) + Z.of_nat j >? 0) with true by (symmetry; apply Z.gtb_lt; lia).
      replace (Z.to_nat (Z.max 0 (Z.of_nat width) + Z.of_nat j)) with (width + j)%nat by lia.
      replace (Z.to_nat (Z.max 0 (Z.of_nat width) + Z.of_nat j + 1)) with (S (width + j)) by lia.
      destruct (find_nat_spec _ _ _ Ef) as [Hj Hbefore].
      assert (Hj' : nth_error text (width + j) = Some SP).
      { rewrite <- (firstn_skipn width text) at 1. rewrite nth_error_app2 by (rewrite firstn_length; lia).
        rewrite firstn_length. replace (width + j - Nat.min width (length text))%nat with j by lia. exact Hj. }
      assert (Hj0 : j <> 0%nat).
      { intros ->. apply Hnone. apply (nth_error_In _ width). rewrite nth_error_firstn_lt by lia.
        replace (width + 0)%nat with width in Hj' by lia. exact Hj'. }
      apply step_long.
      * apply firstn_skipn_mid. exact Hj'.
      * intros Hin. apply In_nth_error in Hin as [m Hm].
        assert (Hml : (m < width + j)%nat).
        { assert (nth_error (firstn (width + j) text) m <> None) by congruence. apply nth_error_Some in H. rewrite firstn_length in H. lia. }
        rewrite nth_error_firstn_lt in Hm by lia.
        destruct (Nat.lt_ge_cases m (S width)) as [Hlt|Hge].
        -- apply Hnone. apply (nth_error_In _ m). rewrite nth_error_firstn_lt by lia. exact Hm.
        -- apply (Hbefore (m - width)%nat); [lia|].
           rewrite <- Hm. rewrite <- (firstn_skipn width text) at 2. rewrite nth_error_app2 by (rewrite firstn_length; lia).
           rewrite firstn_length. f_equal. lia.
      * rewrite firstn_length. lia.
    + replace (-1 >? 0) with false by reflexivity.
      apply step_last. intros Hin.
      rewrite <- (firstn_skipn width text) in Hin. apply in_app_or in Hin as [Hin|Hin].
      * apply Hnone. rewrite <- (firstn_skipn width (firstn (S width) text)). apply in_or_app. left.
        rewrite firstn_firstn. replace (Nat.min width (S width)) with width by lia. exact Hin.
      * exact (find_nat_none _ _ Ef Hin).
Qed.

(* ---------- the whole loop ---------- *)
Inductive lines_spec (width : nat) : str -> list str -> Prop :=
| ls_fits_empty : lines_spec width [] []
| ls_fits text : text <> [] -> (length text <= width)%nat -> lines_spec width text [text]
| ls_step text out rest lines : (width < length text)%nat ->
    step_spec width text out (Some rest) -> lines_spec width rest lines -> lines_spec width text (out ++ lines)
| ls_stop text out : (width < length text)%nat -> step_spec width text out None -> lines_spec width text out.

Lemma step_rest_shorter width text out rest : step_spec width text out (Some rest) -> (length rest < length text)%nat.
Proof. intros H. inversion H; subst; rewrite app_length; cbn; lia. Qed.

Theorem wrap_loop_spec (width : nat) : (0 < width)%nat -> forall fuel text, (length text < fuel)%nat ->
  exists lines, wrap_loop fuel text (Z.of_nat width) = Some lines /\ lines_spec width text lines.
Proof.
  intros Hw. induction fuel as [|f IH]; intros text Hf; [lia|].
  cbn [wrap_loop]. unfold py_len.
  destruct (Z.of_nat (length text) >? Z.of_nat width) eqn:E.
  - apply Z.gtb_lt in E. assert (Hlen : (width < length text)%nat) by lia.
    pose proof (wrap_step_spec text width Hlen Hw) as Hs.
    destruct (wrap_step text (Z.of_nat width)) as [out [rest|]].
    + pose proof (step_rest_shorter _ _ _ _ Hs) as Hsh.
      destruct (IH rest ltac:(lia)) as (lines & El & Hl). rewrite El. cbn.
      exists (out ++ lines). split; [reflexivity|]. eapply ls_step; eassumption.
    + exists out. split; [reflexivity|]. apply ls_stop; assumption.
  - assert (Hlen : (length text <= width)%nat).
    { destruct (Z.gtb_spec (Z.of_nat (length text)) (Z.of_nat width)); [discriminate|lia]. }
    destruct text as [|c t].
    + exists []. split; [reflexivity|constructor].
    + exists [c :: t]. split; [reflexivity|]. apply ls_fits; [discriminate|exact Hlen].
Qed.

Corollary wrap_text_total_and_greedy text (width : nat) : (0 < width)%nat ->
  exists lines, wrap_text text (Z.of_nat width) = Some lines /\ lines_spec width text lines.
Proof. intros Hw. apply wrap_loop_spec; [exact Hw|lia]. Qed.

(* consequences stated on lines: nothing but single spaces is removed, and every line is short or one word *)
Fixpoint join_sp (ls : list str) : str :=
  match ls with [] => [] | [l] => l | l :: r => l ++ SP :: join_sp r end.
Lemma lines_join width text lines : lines_spec width text lines -> lines <> [] -> join_sp lines = text \/ exists t, text = join_sp lines ++ SP :: t /\ t = [].
Proof. Abort.
Lemma lines_short_or_word width text lines : lines_spec width text lines ->
  Forall (fun l => (length l <= width)%nat \/ no_sp l) lines.
Proof.
  induction 1 as [| text Hne Hl | text out rest lines Hlen Hs Hr IH | text out Hlen Hs].
  - constructor.
  - constructor; [left; exact Hl|constructor].
  - apply Forall_app. split; [|exact IH]. inversion Hs; subst; (constructor; [|constructor]); [left|right]; assumption.
  - inversion Hs; subst. constructor; [right; assumption|constructor].
Qed.
Print Assumptions wrap_text_total_and_greedy.
Print Assumptions lines_short_or_word.
