# C05: navigation consistency on states reached by edit histories
import random, sys, itertools
import f1
from delb import *
from delb import get_traverser
from _delb.nodes import TextNode, TagNode
FILTERS = [(), (is_tag_node,), (is_text_node,), (is_comment_node,), (lambda n: isinstance(n,(TagNode,TextNode)),), (is_tag_node, lambda n: n.local_name!="x")]
def pre(r):
    out=[]
    with altered_default_filters():
        for c in r.iterate_children():
            out.append(c)
            if isinstance(c, TagNode): out.extend(pre(c))
    return out
def ids(l): return [id(x) for x in l]
def check_nav(root):
    errs=[]
    with altered_default_filters():
        order=[root]+pre(root)
        pos={id(n):i for i,n in enumerate(order)}
        for n in order:
            if isinstance(n, TagNode):
                kids=list(n.iterate_children())
                if len(n)!=len(kids): errs.append("len")
                if (n.first_child is not (kids[0] if kids else None)) or (n.last_child is not (kids[-1] if kids else None)): errs.append("first/last")
                for i,k in enumerate(kids):
                    if n[i] is not k or n[i-len(kids)] is not k: errs.append("getitem")
                    if k.index!=i: errs.append("index")
                    if k.parent is not n: errs.append("parent")
                    nx = kids[i+1] if i+1<len(kids) else None
                    pv = kids[i-1] if i>0 else None
                    if k.fetch_following_sibling() is not nx: errs.append("next")
                    if k.fetch_preceding_sibling() is not pv: errs.append("prev")
                    if ids(k.iterate_following_siblings())!=ids(kids[i+1:]): errs.append("fsibs")
                    if ids(k.iterate_preceding_siblings())!=ids(reversed(kids[:i])): errs.append("psibs")
                if ids(n.iterate_descendants())!=ids(pre(n)): errs.append("desc")
                ld = n.last_descendant
                p = pre(n)
                if ld is not (p[-1] if p else None): errs.append("last_desc")
                if n.full_text != "".join(t.content for t in p if isinstance(t,TextNode)): errs.append("full_text")
                if n[0:2]!=kids[0:2] or n[::-1]!=kids[::-1]: errs.append("slice")
            # ancestors / depth
            anc=[]; c=n
            while c.parent is not None: c=c.parent; anc.append(c)
            if ids(n.iterate_ancestors())!=ids(anc): errs.append("anc")
            if n.depth!=len(anc): errs.append("depth")
            # following/preceding partition (delb flavour)
            fol=list(n.iterate_following()); prc=list(n.iterate_preceding())
            i=pos[id(n)]
            if ids(fol)!=ids(order[i+1:]): errs.append("following")
            if ids(prc)!=ids(reversed(order[:i])): errs.append("preceding")
            if n.fetch_following() is not (order[i+1] if i+1<len(order) else None): errs.append("fetch_following")
            if n.fetch_preceding() is not (order[i-1] if i>0 else None): errs.append("fetch_preceding")
            # filters
            for F in FILTERS:
                def ok(x): return all(f(x) for f in F)
                if isinstance(n,TagNode):
                    if ids(n.iterate_children(*F))!=ids([k for k in n.iterate_children() if ok(k)]): errs.append("F-children")
                    if ids(n.iterate_descendants(*F))!=ids([k for k in pre(n) if ok(k)]): errs.append("F-desc")
                if ids(n.iterate_following(*F))!=ids([k for k in order[i+1:] if ok(k)]): errs.append("F-following")
                if ids(n.iterate_preceding(*F))!=ids([k for k in reversed(order[:i]) if ok(k)]): errs.append("F-preceding")
                if ids(n.iterate_ancestors(*F))!=ids([k for k in anc if ok(k)]): errs.append("F-anc")
                if n.parent is not None:
                    sib=list(n.parent.iterate_children()); j=n.index
                    if ids(n.iterate_following_siblings(*F))!=ids([k for k in sib[j+1:] if ok(k)]): errs.append("F-fsib")
                    if ids(n.iterate_preceding_siblings(*F))!=ids([k for k in reversed(sib[:j]) if ok(k)]): errs.append("F-psib")
        # traversers
        sub=[root]+pre(root)
        if ids(get_traverser(from_left=True, depth_first=True, from_top=True)(root))!=ids(sub): errs.append("df_ttb")
        def post(r):
            out=[]
            if isinstance(r,TagNode):
                for c in r.iterate_children(): out.extend(post(c))
            out.append(r); return out
        if ids(get_traverser(from_left=True, depth_first=True, from_top=False)(root))!=ids(post(root)): errs.append("df_btt")
        def bf(r):
            out=[r]; q=[r]
            while q:
                x=q.pop(0)
                if isinstance(x,TagNode):
                    for c in x.iterate_children(): out.append(c); q.append(c)
            return out
        if ids(get_traverser(from_left=True, depth_first=False, from_top=True)(root))!=ids(bf(root)): errs.append("bf")
    return sorted(set(errs))
# monkeypatch f1.check to also run nav checks
orig_check=f1.check
agg={}
def check2(o, path="/"):
    e=orig_check(o,path)
    if e: return e
    if path=="/" and o.kind=="tag":
        errs=check_nav(o.real)
        if errs: return "NAV "+",".join(errs)
    return None
f1.check=check2
bad={}
N=int(sys.argv[1]) if len(sys.argv)>1 else 300
for seed in range(N):
    r=f1.run(seed, nops=8)
    if r: bad.setdefault(r[3][:60],[]).append(r)
for k,v in bad.items():
    v.sort(key=lambda r: len(r[2])); print(len(v), k, v[0][1], v[0][2])
print("runs",N,"bad",sum(len(v) for v in bad.values()))
