import random, sys, gc, pathlib, tempfile, re, codecs
gc.disable()
from delb import *
from _delb.nodes import TextNode, TagNode, CommentNode, ProcessingInstructionNode
rnd=random.Random(9)
tmp=pathlib.Path(tempfile.mkdtemp())/"o.xml"
def shape_doc(d):
    def sh(r):
        with altered_default_filters():
            if isinstance(r, TagNode):
                kids=[]
                for c in r.iterate_children():
                    s=sh(c)
                    if s[0]=="text" and kids and kids[-1][0]=="text": kids[-1]=("text",kids[-1][1]+s[1]); continue
                    kids.append(s)
                return ("tag", r.universal_name, tuple(sorted((k, r.attributes[k].value) for k in r.attributes)), tuple(kids))
            if isinstance(r, TextNode): return ("text", r.content)
            if isinstance(r, CommentNode): return ("c", r.content)
            return ("pi", r.target, r.content)
    return ([sh(n) for n in d.prologue], sh(d.root), [sh(n) for n in d.epilogue])
def misc():
    return rnd.choice(["<!--c%d-->"%rnd.randint(0,9), "<?p%d x?>"%rnd.randint(0,9), "<?q?>"])
bad={}
for i in range(1500):
    pro="".join(misc() for _ in range(rnd.randint(0,3))); epi="".join(misc() for _ in range(rnd.randint(0,3)))
    txt=rnd.choice(["a","ü","€","a b","漢"])
    src='%s<r k="%s">%s<x/>%s<!--in--></r>%s'%(pro,txt,txt,txt,epi)
    d=Document(src, ParserOptions(reduce_whitespace=True))
    enc=rnd.choice(["utf-8","utf-16","iso-8859-1","ascii"])
    nl=rnd.choice([None,"\n","\r\n"])
    fo=rnd.choice([None, FormatOptions(False,"  ",0), FormatOptions(True,"\t",0), FormatOptions(False," ",20)])
    try:
        d.save(tmp, encoding=enc, newline=nl, format_options=fo)
    except UnicodeEncodeError:
        try: txt.encode(enc); bad.setdefault("ENC-ERR-on-representable",[]).append((src,enc))
        except UnicodeEncodeError: pass
        continue
    data=tmp.read_bytes()
    try:
        text=data.decode(enc)
    except Exception as e:
        bad.setdefault("UNDECODABLE",[]).append((src,enc)); continue
    m=re.match(r'^﻿?<\?xml version="1.0" encoding="([^"]+)"\?>', text)
    if not m: bad.setdefault("NO-DECL",[]).append((src,enc,text[:60])); continue
    if codecs.lookup(m.group(1)).name!=codecs.lookup(enc).name: bad.setdefault("DECL-ENC",[]).append((src,enc,m.group(1)))
    try:
        back=Document(data, ParserOptions(reduce_whitespace=fo is not None))
    except Exception as e:
        bad.setdefault("REPARSE "+str(e)[:50],[]).append((src,enc,nl,fo,data[:80])); continue
    if shape_doc(back)!=shape_doc(d): bad.setdefault("SHAPE",[]).append((src,enc,nl,fo,data))
    s=str(d)
    if shape_doc(Document(s))!=shape_doc(d): bad.setdefault("STR-SHAPE",[]).append((src,))
    # root replacement keeps siblings
    d2=Document(src); p0=[str(n) for n in d2.prologue]; e0=[str(n) for n in d2.epilogue]
    d2.root=new_tag_node("n")
    if [str(n) for n in d2.prologue]!=p0 or [str(n) for n in d2.epilogue]!=e0: bad.setdefault("SETROOT",[]).append((src,))
    # parser options
    for kw,drop in [({"remove_comments":True},"c"),({"remove_processing_instructions":True},"pi")]:
        d3=Document(src, ParserOptions(**kw))
        def filt(sd):
            def f(s):
                if s[0]=="tag":
                    kids=[]
                    for k in s[3]:
                        if k[0]==drop: continue
                        k=f(k)
                        if k[0]=="text" and kids and kids[-1][0]=="text": kids[-1]=("text",kids[-1][1]+k[1]); continue
                        kids.append(k)
                    return (s[0],s[1],s[2],tuple(kids))
                return s
            return ([x for x in sd[0] if x[0]!=drop], f(sd[1]), [x for x in sd[2] if x[0]!=drop])
        if shape_doc(d3)!=filt(shape_doc(Document(src))): bad.setdefault("PARSEOPT "+drop,[]).append((src,))
for k,v in bad.items(): print(len(v),k,str(v[0])[:400])
print("done")
