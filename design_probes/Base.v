From Coq Require Import List NArith Bool Lia.
Import ListNotations.
Definition char := N.
Definition str := list char.
Definition SP : char := 32%N.
(* stand-in for the generated whitespace table *)
Definition is_ws (c : char) : bool :=
  (N.eqb c 32 || N.eqb c 9 || N.eqb c 10 || N.eqb c 13 || N.eqb c 160)%bool.
Lemma is_ws_SP : is_ws SP = true. Proof. reflexivity. Qed.

Fixpoint collapse_aux (inws : bool) (s : str) : str :=
  match s with
  | [] => []
  | c :: r => if is_ws c then (if inws then collapse_aux true r else SP :: collapse_aux true r)
              else c :: collapse_aux false r
  end.
Definition collapse := collapse_aux false.
Fixpoint lstrip (s : str) : str :=
  match s with [] => [] | c :: r => if is_ws c then lstrip r else s end.
Definition rstrip (s : str) : str := rev (lstrip (rev s)).
Definition strip (s : str) : str := rstrip (lstrip s).
Definition startswith_sp (s : str) : bool := match s with c :: _ => N.eqb c SP | [] => false end.
Definition endswith_sp (s : str) : bool := startswith_sp (rev s).
Definition null {A} (l : list A) : bool := match l with [] => true | _ => false end.

(* shape the translator would emit for TagNode._reduce_whitespace_content *)
Definition rwc (content : str) (is_first is_last : bool) : str :=
  let collapsed := collapse content in
  let cas := strip collapsed in
  let hnw := negb (null cas) in
  let htw := endswith_sp collapsed in
  let result := if (negb is_first && hnw && startswith_sp collapsed)%bool then SP :: cas else cas in
  if ((negb (is_last || is_first) && htw)
      || (negb is_last && is_first && htw && hnw)
      || (is_first && is_last && negb hnw))%bool
  then result ++ [SP] else result.

Definition spec (s : str) (f l : bool) : str :=
  let c := collapse s in
  if (f && l && null (strip c))%bool then [SP]
  else (if l then rstrip else (fun x => x)) ((if f then lstrip else (fun x => x)) c).

(* normal form of collapsed strings: words separated by single SP *)
Inductive core : str -> Prop :=   (* non-empty, no ws at either end, ws only as single SP inside *)
| core_one c : is_ws c = false -> core [c]
| core_cons c r : is_ws c = false -> core r -> core (c :: r)
| core_sp c r : is_ws c = false -> core r -> core (c :: SP :: r).
Inductive nf : str -> Prop :=
| nf_nil : nf []
| nf_sp : nf [SP]
| nf_core (a b : bool) k : core k -> nf ((if a then [SP] else []) ++ k ++ (if b then [SP] else [])).

Lemma core_collapse : forall s b, 
  (collapse_aux b s = [] ) \/ (collapse_aux b s = [SP] /\ b = false) \/
  (exists k, core k /\ (collapse_aux b s = k \/ collapse_aux b s = k ++ [SP] \/ (b = false /\ (collapse_aux b s = SP :: k \/ collapse_aux b s = SP :: k ++ [SP])))).
Proof.
Abort.

Definition optsp (b : bool) : str := if b then [SP] else [].
Definition head_nows (k : str) : Prop := match k with c :: _ => is_ws c = false | [] => False end.
Definition last_nows (k : str) : Prop := head_nows (rev k).

Lemma lstrip_head_nows k x : head_nows k -> lstrip (k ++ x) = k ++ x.
Proof. destruct k as [|c k]; cbn; [tauto|]. intros ->. reflexivity. Qed.
Lemma lstrip_optsp a k x : head_nows k -> lstrip (optsp a ++ k ++ x) = k ++ x.
Proof. intros H. destruct a; cbn [optsp app lstrip]; rewrite ?is_ws_SP; apply lstrip_head_nows; exact H. Qed.
Lemma rstrip_optsp x k b : last_nows k -> rstrip (x ++ k ++ optsp b) = x ++ k.
Proof.
  intros H. unfold rstrip. rewrite !rev_app_distr, <- app_assoc.
  replace (rev (optsp b)) with (optsp b) by (destruct b; reflexivity).
  rewrite lstrip_optsp by exact H. rewrite <- rev_app_distr, rev_involutive. reflexivity.
Qed.
Lemma rstrip_optsp0 k b : last_nows k -> rstrip (k ++ optsp b) = k.
Proof. intros H. apply (rstrip_optsp [] k b H). Qed.

Inductive view : str -> Prop :=
| V_nil : view []
| V_core b k : head_nows k -> last_nows k -> view (k ++ optsp b).

Lemma collapse_false_true s :
  collapse_aux false s = (match s with c :: _ => if is_ws c then [SP] else [] | [] => [] end) ++ collapse_aux true s.
Proof. destruct s as [|c r]; cbn; [reflexivity|]. destruct (is_ws c); reflexivity. Qed.

Lemma last_nows_cons c k : k <> [] -> last_nows k -> last_nows (c :: k).
Proof.
  unfold last_nows. cbn [rev]. intros Hne H. destruct (rev k) as [|d q] eqn:E.
  - apply (f_equal (@rev _)) in E. rewrite rev_involutive in E. cbn in E. congruence.
  - cbn. exact H.
Qed.
Lemma head_nows_ne k : head_nows k -> k <> [].
Proof. destruct k; cbn; [tauto|congruence]. Qed.

Lemma view_collapse_true s : view (collapse_aux true s).
Proof.
  induction s as [|c r IH]; cbn [collapse_aux]; [constructor|].
  destruct (is_ws c) eqn:Ec; [exact IH|].
  rewrite collapse_false_true.
  destruct r as [|d r']; [cbn; apply (V_core false [c]); cbn; auto|].
  remember (collapse_aux true (d :: r')) as X. clear HeqX.
  destruct (is_ws d).
  - inversion IH as [E | b k Hh Hl E]; subst.
    + apply (V_core true [c]); cbn; auto.
    + change (c :: [SP] ++ k ++ optsp b) with ((c :: SP :: k) ++ optsp b).
      apply V_core; [exact Ec|]. apply last_nows_cons; [discriminate|].
      apply last_nows_cons; [apply head_nows_ne; exact Hh| exact Hl].
  - cbn [app]. inversion IH as [E | b k Hh Hl E]; subst.
    + apply (V_core false [c]); cbn; auto.
    + change (c :: k ++ optsp b) with ((c :: k) ++ optsp b).
      apply V_core; [exact Ec|]. apply last_nows_cons; [apply head_nows_ne; exact Hh| exact Hl].
Qed.

Lemma startswith_core k x : head_nows k -> startswith_sp (k ++ x) = false.
Proof. destruct k as [|c k]; cbn; [tauto|]. intros H. destruct (N.eqb_spec c SP); [subst; rewrite is_ws_SP in H; discriminate|reflexivity]. Qed.
Lemma endswith_core x k b : last_nows k -> endswith_sp (x ++ k ++ optsp b) = b.
Proof.
  intros H. unfold endswith_sp. rewrite !rev_app_distr.
  destruct b; cbn [optsp rev app]; [reflexivity|]. rewrite <- ?app_assoc. apply startswith_core. exact H.
Qed.
Lemma null_app_core k x : head_nows k -> null (k ++ x) = false.
Proof. destruct k; cbn; [tauto|reflexivity]. Qed.

Theorem rule_table_is_spec s f l : rwc s f l = spec s f l.
Proof.
  unfold rwc, spec, collapse. rewrite collapse_false_true.
  set (a := match s with c :: _ => if is_ws c then [SP] else [] | [] => [] end).
  assert (Ha : exists a', a = optsp a') by (subst a; destruct s as [|c r]; [exists false|destruct (is_ws c); [exists true|exists false]]; reflexivity).
  destruct Ha as [a' Ea]. rewrite Ea. clear Ea a.
  destruct (view_collapse_true s) as [|b k Hh Hl].
  - rewrite app_nil_r. destruct a', f, l; reflexivity.
  - assert (Hs : strip (optsp a' ++ k ++ optsp b) = k).
    { unfold strip. rewrite lstrip_optsp by exact Hh. apply rstrip_optsp0. exact Hl. }
    rewrite Hs.
    assert (Hn : null k = false) by (destruct k; [cbn in Hh; tauto|reflexivity]). rewrite Hn.
    rewrite (endswith_core (optsp a') k b Hl).
    assert (Hsw : startswith_sp (optsp a' ++ k ++ optsp b) = a').
    { destruct a'; cbn [optsp app]; [reflexivity|apply startswith_core; exact Hh]. }
    rewrite Hsw.
    destruct f, l; cbn [negb andb orb];
      rewrite ?lstrip_optsp by exact Hh; rewrite ?rstrip_optsp by exact Hl; rewrite ?rstrip_optsp0 by exact Hl;
      destruct a', b; cbn [optsp app andb orb negb]; rewrite ?app_nil_r; try reflexivity.
Qed.

