"""Blueprint of XPath/Eval.v (delb's evaluator) and XPath/Ref.v (XPath 1.0 reference semantics for the subset)
over plain trees.  Node = dict(kind in tag/text/c/pi/doc, parent, kids, ns, local, attrs{(ns,local):v}, content, target)."""
import xp_model as P
class Crash(Exception):
    def __init__(s,k): s.kind=k
class EvalError(Exception): pass
def children(n): return n["kids"] if n["kind"] in("tag","doc") else []
def descendants(n):
    out=[]
    for k in children(n): out.append(k); out.extend(descendants(k))
    return out
def ancestors(n):   # tag ancestors, bottom-up (no doc node)
    out=[]; c=n["parent"]
    while c is not None and c["kind"]!="doc": out.append(c); c=c["parent"]
    return out
def root_of(n):
    while n["parent"] is not None and n["parent"]["kind"]!="doc": n=n["parent"]
    return n
def docnode(n):
    r=root_of(n); return r["parent"]
def sib_index(n):
    ks=n["parent"]["kids"]; return next(i for i,k in enumerate(ks) if k is n)
def following_siblings(n):
    if n["parent"] is None or n["parent"]["kind"]=="doc": return []
    ks=n["parent"]["kids"]; return ks[sib_index(n)+1:]
def preceding_siblings(n):
    if n["parent"] is None or n["parent"]["kind"]=="doc": return []
    ks=n["parent"]["kids"]; return list(reversed(ks[:sib_index(n)]))
def doc_order(root):
    return [root]+descendants(root)
# ---------------- delb evaluator ----------------
def d_axis(name, n):
    isdoc = n["kind"]=="doc"
    if name=="self": return [n]
    if name=="child": return list(children(n))
    if name=="descendant": return descendants(n)
    if name=="descendant_or_self": return [n]+descendants(n)
    if isdoc: raise Crash("AttributeError")          # _DocumentNode has no parent/iterate_* beyond children/descendants
    if name=="ancestor": return ancestors(n)+[docnode(n)]
    if name=="ancestor_or_self": return [n]+ancestors(n)+[docnode(n)]
    if name=="parent":
        p=n["parent"]
        return [p] if (p is not None and p["kind"]!="doc") else [docnode(n)]
    if name=="following_sibling": return following_siblings(n)
    if name=="preceding_sibling": return preceding_siblings(n)
    order=doc_order(root_of(n)); i=next(j for j,x in enumerate(order) if x is n)
    if name=="following": return order[i+1:]                       # includes descendants
    if name=="preceding": return list(reversed(order[:i]))         # includes ancestors
    raise Crash("junk-axis")
TYPEK={"TagNode":"tag","TextNode":"text","CommentNode":"c","ProcessingInstructionNode":"pi"}
def d_check_prefix(prefix, nsmap):
    if prefix is not None and prefix not in nsmap: raise EvalError()
def d_nodetest(t, n, nsmap):
    if t[0]=="anyname":
        d_check_prefix(t[1],nsmap)
        if n["kind"]!="tag": return False
        return n["ns"]==nsmap[t[1]] if t[1] else True
    if t[0]=="name":
        d_check_prefix(t[1],nsmap)
        if n["kind"]!="tag": return False
        if t[1] is None: ns = nsmap[""] if "" in nsmap else None
        else: ns=nsmap[t[1]]
        if ns is None or ns=="":
            if n["ns"]: return False
        elif n["ns"]!=ns: return False
        return n["local"]==t[2]
    if t[0]=="typetest": return n["kind"]==TYPEK[t[1]] or n["kind"]=="doc"
    if t[0]=="pitest":
        if not (n["kind"]=="pi" or n["kind"]=="doc"): return False
        if n["kind"]!="pi": raise Crash("AssertionError")
        return n["target"]==t[1]
import operator
OPS={"<=":operator.le,"<":operator.lt,">=":operator.ge,">":operator.gt,"=":operator.eq,"!=":operator.ne,"and":operator.and_,"or":operator.or_}
def d_expr(e, n, pos, size, nsmap):
    k=e[0]
    if k=="val": return e[1]
    if k=="attrval":
        d_check_prefix(e[1],nsmap)
        if n["kind"]!="tag": return None
        v=n["attrs"].get((nsmap.get(e[1],"") if e[1] is not None else "", e[2]))
        return "" if v is None else v
    if k=="hasattr":
        d_check_prefix(e[1],nsmap)
        if n["kind"]!="tag": return False
        return (nsmap.get(e[1],"") if e[1] is not None else "", e[2]) in n["attrs"]
    if k=="op":
        l=d_expr(e[2],n,pos,size,nsmap); r=d_expr(e[3],n,pos,size,nsmap)
        try: return OPS[e[1]](l,r)
        except TypeError: raise Crash("TypeError")
    if k=="fn":
        args=[d_expr(a,n,pos,size,nsmap) for a in e[2]]
        try:
            if e[1]=="concat": return "".join(args)
            if e[1]=="contains": return args[1] in args[0]
            if e[1]=="boolean": return bool(args[0])
            if e[1]=="last": 
                if args: raise TypeError
                return size
            if e[1]=="not": return not args[0]
            if e[1]=="position":
                if args: raise TypeError
                return pos
            if e[1]=="starts-with": return args[0].startswith(args[1])
            if e[1]=="text":
                if args: raise TypeError
                for c in children(n):
                    if c["kind"]=="text": return c["content"]
                return ""
        except TypeError: raise Crash("TypeError")
        except AttributeError: raise Crash("AttributeError")
        raise Crash("unknown-fn")
def d_step(step, n, nsmap):
    _,ax,nt,preds=step
    cands=[c for c in d_axis(ax[1],n) if d_nodetest(nt,c,nsmap)]
    for p in preds:
        size=len(cands); nc=[]
        for i,c in enumerate(cands,1):
            if d_expr(p,c,i,size,nsmap): nc.append(c)
        cands=nc
    return cands
def d_path(path, ctx, nsmap):
    """lazy pipeline as in LocationPath.evaluate: generators nested per step; LocationStep.evaluate de-duplicates per step."""
    _,absolute,steps=path
    def gen(k):
        if k<0:
            yield (docnode(ctx) if absolute else ctx); return
        seen=[]
        for n in gen(k-1):
            for r in d_step(steps[k],n,nsmap):      # _evaluate is eager per context node
                if not any(r is x for x in seen):
                    seen.append(r); yield r
    return gen(len(steps)-1)
def d_eval(expr, ctx, nsmap):
    out=[]
    for p in expr[1]:
        for r in d_path(p,ctx,nsmap):
            if r["kind"]=="doc": raise Crash("AssertionError")
            if not any(r is x for x in out): out.append(r)
    return out
