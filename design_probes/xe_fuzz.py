import random, sys, gc, collections
gc.disable()
from delb import *
from _delb.nodes import TextNode, TagNode, CommentNode, ProcessingInstructionNode
from _delb.exceptions import XPathParsingError, XPathEvaluationError
import xp_model as P, xe_model as E, f7
def plain(r, parent):
    with altered_default_filters():
        if isinstance(r, TagNode):
            n={"kind":"tag","ns":r.namespace,"local":r.local_name,"attrs":{(a.namespace,a.local_name):a.value for a in r.attributes.values()},"parent":parent,"real":r}
            n["kids"]=[plain(c,n) for c in r.iterate_children()]; return n
        if isinstance(r, TextNode): return {"kind":"text","content":r.content,"parent":parent,"real":r,"kids":[]}
        if isinstance(r, CommentNode): return {"kind":"c","content":r.content,"parent":parent,"real":r,"kids":[]}
        return {"kind":"pi","target":r.target,"content":r.content,"parent":parent,"real":r,"kids":[]}
def mkdoc(d):
    doc={"kind":"doc","parent":None,"kids":[]}
    doc["kids"]=[plain(d.root,doc)]
    return doc
def allnodes(n):
    out=[n]
    for k in n["kids"]: out+=allnodes(k)
    return out
rnd=random.Random(int(sys.argv[2]) if len(sys.argv)>2 else 1)
N=int(sys.argv[1]) if len(sys.argv)>1 else 3000
AX2=f7.AXES+["following","preceding"]
f7.AXES[:]=AX2
st=collections.Counter(); bad={}
KEEP=[]
for src in f7.DOCS:
    d=Document(src); KEEP.append(d)
    doc=mkdoc(d); nodes=allnodes(doc)[1:]
    usermap={"p":"u"} if "xmlns:p" in src else None
    for i in range(N):
        e=f7.gen_expr(rnd)
        if "p:" in e and usermap is None and rnd.random()<.8: continue
        ctx=rnd.choice(nodes)
        m=P.parse(e)
        if m[0]!="ok": continue
        # namespaces as evaluate() builds them
        if usermap is None:
            decls=[("", ctx["ns"])] if ctx["kind"]=="tag" else []
        else: decls=list(usermap.items())
        import ser_model as S
        data,_=S.normalize(decls); nsmap=dict(data)
        try: model=("ok", [id(x["real"]) for x in E.d_eval(m[1], ctx, nsmap)])
        except E.Crash as c: model=("crash", c.kind)
        except E.EvalError: model=("evalerror",)
        try: real=("ok", [id(x) for x in ctx["real"].xpath(e, namespaces=usermap)])
        except XPathEvaluationError: real=("evalerror",)
        except Exception as ex: real=("crash", type(ex).__name__)
        st[real[0]+(":"+real[1] if real[0]=="crash" else "")]+=1
        if real!=model: bad.setdefault((real[0],model[0]),[]).append((e,ctx["kind"],real,model))
print(dict(st))
for k,v in bad.items():
    v.sort(key=lambda x: len(x[0])); print(len(v),k)
    for x in v[:4]: print("    ",x)
print("mismatches", sum(len(v) for v in bad.values()))
