import ast, sys
FILES=["/repo/_delb/nodes.py","/repo/delb/__init__.py","/repo/delb/utils.py","/repo/_delb/utils.py","/repo/_delb/xpath/__init__.py","/repo/_delb/xpath/ast.py","/repo/_delb/xpath/functions.py","/repo/delb/transform.py","/repo/_delb/plugins/core_loaders.py"]
def is_adf_call(e):
    return isinstance(e, ast.Call) and ((isinstance(e.func, ast.Name) and e.func.id=="altered_default_filters") or (isinstance(e.func, ast.Attribute) and e.func.attr=="altered_default_filters"))
class V(ast.NodeVisitor):
    def __init__(s, fn): s.fn=fn; s.stack=[]; s.cls=[]; s.out=[]
    def visit_ClassDef(s,n): s.cls.append(n.name); s.generic_visit(n); s.cls.pop()
    def visit_FunctionDef(s,n):
        has_yield=any(isinstance(x,(ast.Yield,ast.YieldFrom)) for x in ast.walk(n) if not (isinstance(x,(ast.FunctionDef,ast.Lambda)) and x is not n)) 
        # (approximation: nested defs' yields counted too; refine below)
        own_yields=[]
        def collect(node, under_with):
            for ch in ast.iter_child_nodes(node):
                if isinstance(ch,(ast.FunctionDef,ast.AsyncFunctionDef,ast.Lambda,ast.ClassDef)): continue
                if isinstance(ch, ast.With) and any(is_adf_call(i.context_expr) for i in ch.items):
                    for b in ch.body: collect_stmt(b, True)
                    continue
                collect_stmt(ch, under_with)
        def collect_stmt(ch, under_with):
            if isinstance(ch,(ast.Yield,ast.YieldFrom)): own_yields.append((ch.lineno, under_with))
            if isinstance(ch,(ast.FunctionDef,ast.AsyncFunctionDef,ast.Lambda,ast.ClassDef)): return
            if isinstance(ch, ast.With) and any(is_adf_call(i.context_expr) for i in ch.items):
                for b in ch.body: collect_stmt(b, True)
                return
            collect(ch, under_with)
        collect(n, False)
        decorated=any(is_adf_call(d) for d in n.decorator_list)
        is_gen=bool(own_yields)
        name=".".join(s.cls+[n.name])
        reads=[x.lineno for x in ast.walk(n) if isinstance(x,ast.Subscript) and isinstance(x.value,ast.Name) and x.value.id=="default_filters"]
        if decorated or any(u for _,u in own_yields) or reads:
            s.out.append((s.fn.split("/repo/")[1], name, n.lineno, "generator" if is_gen else "function", "decorated" if decorated else "", "yield-under-with@%s"%[l for l,u in own_yields if u] if any(u for _,u in own_yields) else "", "reads default_filters@%s"%reads if reads else ""))
        s.generic_visit(n)
for f in FILES:
    v=V(f); v.visit(ast.parse(open(f).read()))
    for o in v.out: print(o)
