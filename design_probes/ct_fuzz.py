import random, sys, gc, traceback
gc.disable()
from delb import *
from _delb.nodes import TextNode, TagNode, CommentNode, ProcessingInstructionNode, _wrapper_cache, DETACHED
import ct_model as M
class H:
    """runs the real API and the blueprint side by side (ambient filter ())"""
    def __init__(s, src):
        s.doc=Document(src); s.ids={}; s.objs={}; s.W=M.World(); s.next=0
        s.roots=[s.load(s.doc.root._etree_obj, None)]   # model roots (elements); loose elements appended here too
        s.keep=[]
    def mid(s,obj):
        k=id(obj)
        if k not in s.ids: s.ids[k]=s.next; s.objs[s.next]=obj; s.next+=1
        return s.ids[k]
    def load(s, e, parent):
        w=_wrapper_cache(e); kind={TagNode:"tag",CommentNode:"c",ProcessingInstructionNode:"pi"}[type(w)]
        m=M.el(s.mid(w),kind); m["parent"]=parent
        if kind=="tag" and e.text is not None: m["data"]={"hid":s.mid(w._data_node),"slot":e.text,"app":[]}
        for k in e:
            km=s.load(k,m); m["kids"].append(km)
            if k.tail is not None: km["tail"]={"hid":s.mid(_wrapper_cache(k)._tail_node),"slot":k.tail,"app":[]}
        return m
    # ---- dumps ----
    def dump_real_chain(s, head):
        app=[]; cur=head._appended_text_node
        while cur is not None: app.append((s.ids.get(id(cur)), cur.content)); cur=cur._appended_text_node
        if head._exists: return (s.ids.get(id(head)), head.content, app)
        return (None, None, app)
    def dump_real(s, w):
        e=w._etree_obj
        d=(s.ids.get(id(w)), s.dump_real_chain(w._data_node) if isinstance(w,TagNode) else (None,None,[]),
           [ (s.dump_real(_wrapper_cache(k)), s.dump_real_chain(_wrapper_cache(k)._tail_node)) for k in e ] if isinstance(w,TagNode) else [])
        return d
    def dump_model_chain(s,ch):
        app=[(t["id"],t["s"]) for t in ch["app"]]
        if M.exists(ch): return (ch["hid"], ch["slot"], app)
        return (None,None,app)
    def dump_model(s,m):
        return (m["id"], s.dump_model_chain(m["data"]), [(s.dump_model(k), s.dump_model_chain(k["tail"])) for k in m["kids"]])
    # ---- node lookup ----
    def all_model_nodes(s):
        out=[]
        def walk(e):
            out.append(("el",e))
            for t in M.chain_texts(e["data"]): out.append(("text",t[1]))
            for k in e["kids"]:
                walk(k)
                for t in M.chain_texts(k["tail"]): out.append(("text",t[1]))
        for r in s.roots: walk(r)
        return out
    def model_el(s,mid_):
        for kind,x in s.all_model_nodes():
            if kind=="el" and x["id"]==mid_: return x
    # ---- composite operations on the model, mirroring NodeBase/TagNode methods with F = () ----
    def m_is_loose(s, n):
        if n[0]=="el": return n[1]["parent"] is None and not M.exists(n[1]["tail"])
        return n[1] in s.W.loose_text
    def m_add_following_one(s, tgt, new):
        if tgt[0]=="el":
            E=tgt[1]
            if new[0]=="el": M.el_add_following_el(E,new[1]); s.roots=[r for r in s.roots if r is not new[1]]
            else: M.el_add_following_text(s.W,E,new[1])
        else:
            loc=s.W.find_text(s.roots,tgt[1])
            if new[0]=="el": M.text_add_following_el(s.W,loc,new[1]); s.roots=[r for r in s.roots if r is not new[1]]
            else: M.text_add_following_text(s.W,loc,new[1])
    def m_prev(s,E):
        P=E["parent"]; i=M.kid_index(E)
        ch = P["data"] if i==0 else P["kids"][i-1]["tail"]
        if M.exists(ch): return ("text", ch["app"][-1]["id"] if ch["app"] else ch["hid"])
        return None if i==0 else ("el",P["kids"][i-1])
    def m_add_preceding_one(s,tgt,new):
        if tgt[0]=="el":
            E=tgt[1]; prev=s.m_prev(E)
            if prev is None:
                if new[0]=="el": E["parent"]["kids"].insert(0,new[1]); new[1]["parent"]=E["parent"]; s.roots=[r for r in s.roots if r is not new[1]]
                else: M.add_first_child_text(s.W,E["parent"],new[1])
            else: s.m_add_following_one(prev,new)
        else:
            loc=s.W.find_text(s.roots,tgt[1])
            if new[0]=="el": M.text_add_preceding_el(s.W,loc,new[1]); s.roots=[r for r in s.roots if r is not new[1]]
            else: M.text_add_preceding_text(s.W,loc,new[1])
    def m_children(s,P): return [("el",c[2]) if c[0]=="el" else ("text",c[1]) for c in M.children(P)]
    def m_add_first_child(s,P,new):
        if new[0]=="el": M.add_first_child_el(P,new[1]); s.roots=[r for r in s.roots if r is not new[1]]
        else: M.add_first_child_text(s.W,P,new[1])
    def m_detach(s,n):
        if n[0]=="el":
            if n[1]["parent"] is not None: M.el_detach(n[1]); s.roots.append(n[1])
        else: M.text_detach(s.W, s.W.find_text(s.roots,n[1]))
def run(seed, nops=10):
    rnd=random.Random(seed)
    src=rnd.choice(['<r>a<x/>b<!--c-->d<y>e<z/>f</y>g</r>','<r><x/><y/></r>','<r>t</r>','<r/>','<r><x>1<i/>2<j/>3</x>4<y/>5</r>'])
    h=H(src); log=[]
    with altered_default_filters():
        for step in range(nops):
            nodes=h.all_model_nodes()
            attached=[n for n in nodes if not h.m_is_loose(n) and not (n[0]=="el" and n[1]["parent"] is None)]
            tags=[n for n in nodes if n[0]=="el" and n[1]["kind"]=="tag"]
            def real_of(n): return h.objs[n[1]["id"]] if n[0]=="el" else h.objs[n[1]]
            def fresh():
                q=rnd.random()
                if q<.45:
                    t=TextNode(rnd.choice(["T","uu","w w"])); i=h.mid(t); h.W.loose_text[i]=t.content; return ("text",i)
                if q<.65:
                    e=new_tag_node(rnd.choice(["n","m"])); m=M.el(h.mid(e),"tag"); h.roots.append(m); return ("el",m)
                if q<.75:
                    e=new_comment_node("cc"); m=M.el(h.mid(e),"c"); h.roots.append(m); return ("el",m)
                loose=[n for n in nodes if h.m_is_loose(n) and not (n[0]=="el" and n[1] is h.roots[0])]
                loose+= [("text",i) for i in h.W.loose_text]
                if loose: return rnd.choice(loose)
                t=TextNode("L"); i=h.mid(t); h.W.loose_text[i]=t.content; return ("text",i)
            op=rnd.choice(["append","prepend","insert","follow","precede","detach","detach_retain","replace","delitem","content","merge"])
            try:
                if op in("append","prepend","insert"):
                    P=rnd.choice(tags); k=rnd.randint(1,3); news=[]
                    for _ in range(k):
                        n=fresh()
                        if any(n==m for m in news) or (n[0]=="el" and n[1] is P[1]): continue
                        # avoid cycles: offered element must not be an ancestor of P
                        anc=P[1]; bad=False
                        while anc is not None:
                            if n[0]=="el" and anc is n[1]: bad=True
                            anc=anc["parent"]
                        if not bad: news.append(n)
                    if not news: continue
                    kids=h.m_children(P[1])
                    idx = len(kids) if op=="append" else 0 if op=="prepend" else rnd.randint(0,len(kids))
                    log.append((op,P[1]["id"],idx,[n[0] for n in news]))
                    reals=[real_of(n) for n in news]
                    if op=="append": real_of(P).append_children(*reals)
                    elif op=="prepend": real_of(P).prepend_children(*reals)
                    else: real_of(P).insert_children(idx,*reals)
                    # model
                    if op=="append":
                        if not kids: h.m_add_first_child(P[1],news[0]); last=news[0]; rest=news[1:]
                        else: last=kids[-1]; rest=news
                        for n in rest: h.m_add_following_one(last,n); last=n
                    else:
                        this,queue=news[0],news[1:]
                        if idx==0:
                            if kids: h.m_add_preceding_one(kids[0],this)
                            else: h.m_add_first_child(P[1],this)
                        else: h.m_add_following_one(kids[idx-1],this)
                        last=this
                        for n in queue: h.m_add_following_one(last,n); last=n
                elif op in("follow","precede"):
                    if not attached: continue
                    t=rnd.choice(attached); news=[]
                    for _ in range(rnd.randint(1,3)):
                        n=fresh()
                        if any(n==m for m in news): continue
                        anc=t[1] if t[0]=="el" else None; bad=False
                        if t[0]=="text":
                            loc=h.W.find_text(h.roots,t[1]); anc=loc[1]
                        while anc is not None:
                            if n[0]=="el" and anc is n[1]: bad=True
                            anc=anc["parent"]
                        if not bad: news.append(n)
                    if not news: continue
                    log.append((op, t[0], [n[0] for n in news]))
                    reals=[real_of(n) for n in news]
                    if op=="follow":
                        real_of(t).add_following_siblings(*reals); last=t
                        for n in news: h.m_add_following_one(last,n); last=n
                    else:
                        real_of(t).add_preceding_siblings(*reals); anchor=t
                        for n in news: h.m_add_preceding_one(anchor,n); anchor=n
                elif op=="detach":
                    if not attached: continue
                    t=rnd.choice(attached); log.append((op,t[0])); real_of(t).detach(); h.m_detach(t)
                elif op=="detach_retain":
                    c=[n for n in attached if n[0]=="el" and n[1]["kind"]=="tag"]
                    if not c: continue
                    t=rnd.choice(c); log.append((op,)); E=t[1]; P=E["parent"]
                    real_of(t).detach(retain_child_nodes=True)
                    idx=[i for i,x in enumerate(h.m_children(P)) if x[0]=="el" and x[1] is E][0]
                    h.m_detach(t)
                    kids=h.m_children(E)
                    for k in kids: h.m_detach(k)
                    if kids:
                        pk=h.m_children(P); this,queue=kids[0],kids[1:]
                        if idx==0:
                            if pk: h.m_add_preceding_one(pk[0],this)
                            else: h.m_add_first_child(P,this)
                        else: h.m_add_following_one(pk[idx-1],this)
                        last=this
                        for n in queue: h.m_add_following_one(last,n); last=n
                elif op=="replace":
                    if not attached: continue
                    t=rnd.choice(attached); n=fresh()
                    if n==t: continue
                    anc=t[1] if t[0]=="el" else h.W.find_text(h.roots,t[1])[1]; bad=False
                    while anc is not None:
                        if n[0]=="el" and anc is n[1]: bad=True
                        anc=anc["parent"]
                    if bad: continue
                    log.append((op,t[0],n[0])); real_of(t).replace_with(real_of(n))
                    h.m_add_following_one(t,n); h.m_detach(t)
                elif op=="delitem":
                    P=rnd.choice(tags); kids=h.m_children(P[1])
                    if not kids: continue
                    i=rnd.randrange(len(kids)); log.append((op,i)); del real_of(P)[i]; h.m_detach(kids[i])
                elif op=="content":
                    texts=[n for n in nodes if n[0]=="text"]+[("text",i) for i in h.W.loose_text]
                    if not texts: continue
                    t=rnd.choice(texts); v=rnd.choice(["X","Q q",""]) if CONTENT_EMPTY else rnd.choice(["X","Q q"])
                    log.append((op,v)); real_of(t).content=v
                    M.set_content(h.W, h.W.find_text(h.roots,t[1]), t[1], v)
                elif op=="merge":
                    P=rnd.choice(tags); log.append((op,)); real_of(P).merge_text_nodes()
                    def mm(e):
                        M.merge_chain(e["data"])
                        for k in e["kids"]:
                            mm(k); M.merge_chain(k["tail"])
                    M.merge_chain  # descendants only: the data chain of P and everything below, tails of P's kids
                    M.merge_chain(P[1]["data"])
                    for k in P[1]["kids"]:
                        mm(k); M.merge_chain(k["tail"])
                    # empty texts are detached
                    def empties(e,acc):
                        for which in ("data",):
                            if M.exists(e[which]) and e[which]["slot"]=="": acc.append(e[which]["hid"])
                        for k in e["kids"]:
                            empties(k,acc)
                            if M.exists(k["tail"]) and k["tail"]["slot"]=="": acc.append(k["tail"]["hid"])
                    acc=[]; empties(P[1],acc)
                    for tid in acc: M.text_detach(h.W, h.W.find_text(h.roots,tid))
            except Exception as e:
                return ("EXC", seed, log, traceback.format_exc().splitlines()[-1][:120], traceback.format_exc().splitlines()[-3][:120])
            # compare all trees: document root + loose element roots
            for r in h.roots:
                rd=h.dump_real(h.objs[r["id"]]); md=h.dump_model(r)
                if rd!=md: return ("MISMATCH", seed, log, str(rd)[:400], str(md)[:400])
            for tid,sv in h.W.loose_text.items():
                o=h.objs[tid]
                if o._position is not DETACHED or o.content!=sv: return ("LOOSE-TEXT", seed, log, repr(o), sv)
    return None
CONTENT_EMPTY = (len(sys.argv)>2 and sys.argv[2]=="empty")
bad={}
N=int(sys.argv[1]) if len(sys.argv)>1 else 2000
for seed in range(N):
    r=run(seed)
    if r: bad.setdefault((r[0],r[3][:50] if r[0]=="EXC" else ""),[]).append(r)
for k,v in bad.items():
    v.sort(key=lambda r: len(r[2])); print(len(v),k); print("   ",v[0][1:])
print("runs",N,"bad",sum(len(v) for v in bad.values()))
