"""Blueprint of Ws/Reduce.v: TagNode._reduce_whitespace_of_descendants over plain trees
 node = ("tag", attrs{(ns,local):v}, [kids]) | ("text", s) | ("c", s) | ("pi", t, s)"""
import re
XML="http://www.w3.org/XML/1998/namespace"
def crunch(s): return re.sub(r"\s+"," ",s)
def rwc(content,is_first,is_last):
    collapsed=crunch(content); cas=collapsed.strip(); hnw=bool(cas); htw=collapsed.endswith(" ")
    result = " "+cas if (not is_first and hnw and collapsed.startswith(" ")) else cas
    if (not (is_last or is_first) and htw) or (not is_last and is_first and htw and hnw) or (is_first and is_last and not hnw): result+=" "
    return result
def directive(attrs, default):
    v=attrs.get((XML,"space"))
    if v is None: return default
    return v if v in("default","preserve") else default
def reduce(node, normalize_space="default"):
    kind=node[0]
    if kind!="tag": return node
    attrs,kids=node[1],node[2]
    child_nodes=list(kids)
    if not child_nodes: return node
    child_nodes=[n for n in child_nodes if not (n[0]=="text" and n[1]=="")]
    if not child_nodes: return ("tag",attrs,[])
    ns=directive(attrs, normalize_space)
    child_nodes=[reduce(n,ns) if n[0]=="tag" else n for n in child_nodes]
    if ns=="preserve": return ("tag",attrs,child_nodes)
    out=[]
    for i,n in enumerate(child_nodes):
        if n[0]=="text":
            r=rwc(n[1], i==0, i==len(child_nodes)-1)
            if r: out.append(("text",r))
        else: out.append(n)
    return ("tag",attrs,out)
