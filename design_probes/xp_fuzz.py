import random, sys, operator
from xp_model import parse as mparse
from _delb.xpath import parse as rparse
from _delb.xpath import ast as A
from _delb.xpath.parser import OPERATORS
from _delb.exceptions import XPathParsingError, XPathUnsupportedStandardFeature
OPN={v:k for k,v in OPERATORS.items()}
def canon(n):
    if isinstance(n,A.XPathExpression): return ("expr", tuple(canon(p) for p in n.location_paths))
    if isinstance(n,A.LocationPath): return ("path", n.absolute, tuple(canon(s) for s in n.location_steps))
    if isinstance(n,A.LocationStep):
        try: an=n.axis.generator.__name__
        except Exception: an="<junk>"
        return ("step", ("axis", an), canon(n.node_test), tuple(canon(p) for p in n.predicates))
    if isinstance(n,A.ProcessingInstructionTest): return ("pitest", n.target)
    if isinstance(n,A.NodeTypeTest): return ("typetest", n.type_name)
    if isinstance(n,A.AnyNameTest): return ("anyname", n.prefix)
    if isinstance(n,A.NameMatchTest): return ("name", n.prefix, n.local_name)
    if isinstance(n,A.AnyValue): return ("val", n.value)
    if isinstance(n,A.HasAttribute): return ("hasattr", n.prefix, n.local_name)
    if isinstance(n,A.AttributeValue): return ("attrval", n.prefix, n.local_name)
    if isinstance(n,A.BooleanOperator): return ("op", OPN[n.operator], canon(n.left), canon(n.right))
    if isinstance(n,A.Function):
        name=[k for k,f in A.xpath_functions.items() if f is n.function][0]
        return ("fn", name, tuple(canon(a) for a in n.arguments))
    raise TypeError(n)
def real(s):
    rparse.cache_clear()
    try: return ("ok", canon(rparse(s)))
    except XPathParsingError as e:
        try: str(e)
        except Exception as x: return ("strfail", type(x).__name__)
        return ("xpe", e.position, e.message, isinstance(e,XPathUnsupportedStandardFeature))
    except RecursionError: return ("crash","RecursionError")
    except Exception as e: return ("crash", type(e).__name__)
VOC=["a","b","node","text","comment","processing-instruction","last","position","not","contains","concat","foo","child","self","ancestor-or-self","following","evaluate","generator","__class__","__slots__","__doc__","and","or",
     "/","//",".","..","::",":","*","@","[","]","(",")",",","|","=","!=","<","<=",">",">=","+","-","1","23","'s'",'"t"',"'",'"'," ","\n","$","#","ä","é1","\\", "a-b", "a.b", "٣"]
VALID=["a","a/b","//a","./a","../a","a[1]","a[@k]","a[@k='v']","a[@p:k]","a[last()]","a[position()=1]","a[not(@k)]","a[contains(@k,'v')]","a[@k and @j]","a[@k or 1=1]","p:a","p:*","*","text()","comment()","processing-instruction()","processing-instruction('x')","node()","self::a","descendant-or-self::node()","a|b","/a/b[1][@k]","a[(1)]","a[concat('a','b')='ab']","/*","a[starts-with(@k,\"x\")]"]
rnd=random.Random(int(sys.argv[2]) if len(sys.argv)>2 else 0)
def soup(): return "".join(rnd.choice(VOC) for _ in range(rnd.randint(0,7)))
def mutate():
    s=rnd.choice(VALID)
    q=rnd.random()
    if q<.3: return s[:rnd.randint(0,len(s))]
    if q<.6:
        i=rnd.randint(0,len(s)); return s[:i]+rnd.choice(VOC)+s[i:]
    if q<.8:
        i=rnd.randint(0,max(0,len(s)-1)); return s[:i]+s[i+1:]
    return s+rnd.choice(["/","|","[","]","(",")"," ","//","::"])+rnd.choice(VALID+[""])
N=int(sys.argv[1]) if len(sys.argv)>1 else 20000
import collections
st=collections.Counter(); bad={}
for i in range(N):
    s=soup() if rnd.random()<.5 else mutate()
    m=mparse(s); r=real(s)
    st[r[0]+(":"+r[1] if r[0]=="crash" else "")]+=1
    if m!=r:
        bad.setdefault((m[0],r[0]),[]).append((s,m,r))
print(dict(st))
for k,v in bad.items():
    v.sort(key=lambda x:len(x[0])); print(len(v),k); 
    for x in v[:4]: print("    ",x)
print("mismatches", sum(len(v) for v in bad.values()))
