From Coq Require Import List Arith Bool Lia.
Import ListNotations.
(* C17 in miniature: compare_trees returns "no difference" exactly for equal trees, symmetrically. *)
Section Cmp.
Variable payload : Type.                                   (* kind + name + namespace + attributes / content *)
Variable peq : payload -> payload -> bool.
Hypothesis peq_spec : forall a b, peq a b = true <-> a = b.
Inductive tree := T (p : payload) (kids : list tree).

Section TreeInd.
  Variable P : tree -> Prop.
  Hypothesis H : forall p ks, Forall P ks -> P (T p ks).
  Fixpoint tree_ind' (t : tree) : P t :=
    match t with T p ks => H p ks ((fix go l : Forall P l := match l with [] => Forall_nil _ | k :: r => Forall_cons k (tree_ind' k) (go r) end) ks) end.
End TreeInd.

(* the code: payload checks, then len(lhr) != len(rhr), then zip over the children, first difference wins *)
Definition cmp_kids (rec : tree -> tree -> bool) := fix go (l r : list tree) : bool :=
  match l, r with
  | a :: l', b :: r' => if rec a b then go l' r' else false
  | _, _ => true                                           (* zip stops at the shorter list *)
  end.
Fixpoint cmp (a b : tree) {struct a} : bool :=
  match a, b with
  | T pa ka, T pb kb =>
      if peq pa pb then
        if Nat.eqb (length ka) (length kb) then cmp_kids cmp ka kb else false
      else false
  end.

Lemma peq_refl a : peq a a = true. Proof. apply peq_spec. reflexivity. Qed.

Theorem cmp_iff : forall a b, cmp a b = true <-> a = b.
Proof.
  induction a as [pa ka IH] using tree_ind'. intros [pb kb]. cbn [cmp].
  destruct (peq pa pb) eqn:Ep.
  2:{ split; [discriminate|]. intros [= -> ->]. rewrite peq_refl in Ep. discriminate. }
  apply peq_spec in Ep. subst pb.
  destruct (Nat.eqb_spec (length ka) (length kb)) as [El|El].
  2:{ split; [discriminate|]. intros [= ->]. congruence. }
  assert (Hk : cmp_kids cmp ka kb = true <-> ka = kb).
  { revert kb El. induction IH as [|x ka' Ha Hrest IHk]; intros [|y kb'] El; cbn [length cmp_kids] in *; try lia.
    - tauto.
    - destruct (cmp x y) eqn:Ec.
      + apply Ha in Ec. subst y. rewrite (IHk kb') by lia. split; [intros ->; reflexivity|intros [= ->]; reflexivity].
      + split; [discriminate|]. intros Heq. injection Heq as Hxy Hrest'. subst y.
        assert (Hxx : cmp x x = true) by (apply Ha; reflexivity). congruence. }
  rewrite Hk. split; [intros ->; reflexivity|intros [= ->]; reflexivity].
Qed.
Corollary cmp_sym a b : cmp a b = cmp b a.
Proof.
  destruct (cmp a b) eqn:E1, (cmp b a) eqn:E2; try reflexivity.
  - apply cmp_iff in E1. subst. rewrite (proj2 (cmp_iff b b) eq_refl) in E2. discriminate.
  - apply cmp_iff in E2. subst. rewrite (proj2 (cmp_iff a a) eq_refl) in E1. discriminate.
Qed.
(* what a mutation "compare only the common prefix of the children" (dropping the length test) would break *)
Definition cmp_nolen_kids := cmp_kids.
End Cmp.
Print Assumptions cmp_iff.
