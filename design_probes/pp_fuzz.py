import random, sys, gc, warnings, re
gc.disable(); warnings.simplefilter("ignore")
from delb import *
from _delb.nodes import TextNode, TagNode, CommentNode, ProcessingInstructionNode
import pp_model as M, ser_model as S
def plain(r, parent=None):
    with altered_default_filters():
        if isinstance(r, TagNode):
            n={"kind":"tag","ns":r.namespace,"local":r.local_name,"attrs":[((a.namespace,a.local_name),a.value) for a in r.attributes.values()],"parent":parent,"real":r}
            n["attrs_store_order"]=list(n["attrs"])
            n["kids"]=[plain(c,n) for c in r.iterate_children()]
            return n
        if isinstance(r, TextNode): return {"kind":"text","content":r.content,"parent":parent}
        if isinstance(r, CommentNode): return {"kind":"c","content":r.content,"parent":parent}
        return {"kind":"pi","target":r.target,"content":r.content,"parent":parent}
def to_tuple(n):
    if n["kind"]=="tag": return ("tag",n["ns"],n["local"],n["attrs"],[to_tuple(k) for k in n["kids"]], n["real"])
    if n["kind"]=="text": return ("text",n["content"])
    if n["kind"]=="c": return ("c",n["content"])
    return ("pi",n["target"],n["content"])
def order(idx,node):
    r=node[5]; return list({r.namespace} | {a.namespace for a in r.attributes.values()})
rnd=random.Random(int(sys.argv[2]) if len(sys.argv)>2 else 1)
WORDS=["a","bb","ccc","dddd","eeeeeeeeee","f&amp;g","&lt;","ü"]
def txt(pres):
    if pres: return rnd.choice(["x\n"," y ","\n","a  b","\n\n"," ","q","\n z"])
    n=rnd.randint(1,4); s=" ".join(rnd.choice(WORDS) for _ in range(n))
    if rnd.random()<.5: s=" "+s
    if rnd.random()<.5: s=s+" "
    if rnd.random()<.1: s=rnd.choice([" ","  ","\n "])
    return s
def gen(depth,pres):
    out=[]; last_text=False
    for _ in range(rnd.randint(0,4)):
        r=rnd.random()
        if r<.4 and not last_text: out.append(txt(pres)); last_text=True; continue
        last_text=False
        if r<.5: out.append("<!--c-->")
        elif r<.55: out.append("<?t p?>")
        elif depth<3:
            a=""; p=pres; q=rnd.random()
            if q<.2: a=' xml:space="preserve"'; p=True
            elif q<.27: a=' xml:space="default"'; p=False
            elif q<.3: a=' xml:space="bogus"'
            if rnd.random()<.25: a+=' k="v"'
            if rnd.random()<.15: a+=' kk="v&amp;&quot;"'
            inner=gen(depth+1,p); nm=rnd.choice(["a","b","longname","p:x"])
            out.append("<%s%s>%s</%s>"%(nm,a,inner,nm) if inner else "<%s%s/>"%(nm,a))
    return "".join(out)
N=int(sys.argv[1]) if len(sys.argv)>1 else 1000
REDUCE = (sys.argv[3]=="reduce") if len(sys.argv)>3 else True
bad={}; import collections; st=collections.Counter()
FOS=[None,(False,"",0),(False,"  ",0),(True,"\t",0),(True,"",0),(False,"",1),(False," ",5),(False,"  ",10),(True,"  ",20),(False,"\t",40),(False,"  ",80)]
for i in range(N):
    src='<r xmlns:p="up">'+gen(0,False)+"</r>"
    d=Document(src, ParserOptions(reduce_whitespace=REDUCE))
    t=plain(d.root)
    pm=dict(S.collect(to_tuple(t), None, order))
    decl=[("xmlns:p",'"up"')] if "up" in pm and pm["up"]=="p:" else []
    decl=[]
    for ns,p in pm.items():
        if p=="" and ns: decl.append(("xmlns",'"%s"'%ns))
    for ns,p in sorted(pm.items(), key=lambda kv: kv[1]):
        if p and p[:-1] not in("xml","xmlns"): decl.append(("xmlns:"+p[:-1],'"%s"'%ns))
    for fo in FOS:
        try: real=d.root.serialize(format_options=None if fo is None else FormatOptions(*fo))
        except Exception as e: real="EXC "+type(e).__name__
        try: model=M.run(t,pm,decl,fo)
        except M.Crash as c: model="EXC "+c.kind
        except Exception as e: model="MODEL-EXC "+type(e).__name__+" "+str(e)
        st["cmp"]+=1
        if real!=model:
            key=("width>0" if fo and fo[2] else "width0" if fo else "plain")
            bad.setdefault(key,[]).append((src,fo,real,model))
print(dict(st))
for k,v in bad.items():
    v.sort(key=lambda x: len(x[0])); print(len(v),k)
    for x in v[:2]: print("   ",x)
print("mismatches", sum(len(v) for v in bad.values()))
