import random, sys, gc
gc.disable()
from delb import *
from _delb.nodes import Attribute
NS=["", "d", "e"]
NAMES=["k","j","h"]
def mknode(kind):
    if kind=="plain": return new_tag_node("n"), ""
    if kind=="created-ns": return new_tag_node("n", namespace="d"), ""
    if kind=="parsed-default": return Document('<r xmlns="d"><n/></r>').root[0], "d"
    if kind=="parsed-prefixed": return Document('<r xmlns:p="d"><p:n/></r>').root[0], ""
    if kind=="parsed-default-other": return Document('<r xmlns="e"><p:n xmlns:p="d"/></r>').root[0], "e"
def run(seed, kind):
    rnd=random.Random(seed)
    node,dns=mknode(kind)
    keep=[node]  # keep doc alive
    def norm(ns,name): return (dns if (ns=="" and dns) else ns, name)
    model={}      # normalised key -> value   (insertion ordered)
    held=[]       # (attrobj, state) state: ["live", key] or ["dead", value]
    log=[]
    def acc():
        ns=rnd.choice(NS); nm=rnd.choice(NAMES)
        form=rnd.choice(["tuple","clark","local"])
        if form=="local": return nm, norm(node.namespace, nm)
        if form=="clark" and ns: return "{%s}%s"%(ns,nm), norm(ns,nm)
        return (ns,nm), norm(ns,nm)
    for step in range(25):
        op=rnd.choice(["set","set","del","pop","get","contains","update","hold","value","rename_local","rename_ns","nodeset","nodedel"])
        a,key=acc()
        log.append((op,a))
        try:
            if op=="set":
                v="v%d"%step; node.attributes[a]=v; model[key]=v
            elif op=="nodeset":
                v="w%d"%step; node[a]=v; model[key]=v
            elif op=="del" or op=="nodedel":
                exp = key in model
                try:
                    if op=="del": del node.attributes[a]
                    else: del node[a]
                    ok=True
                except KeyError: ok=False
                if ok!=exp: return ("del-presence", log)
                if ok:
                    v=model.pop(key)
                    for h in held:
                        if h[1][0]=="live" and h[1][1]==key: h[1][:]=["dead", v]
            elif op=="pop":
                r=node.attributes.pop(a, None)
                if (r is None)!=(key not in model): return ("pop-presence", log)
                if r is not None:
                    v=model.pop(key)
                    if str(r)!=v: return ("pop-value",log)
                    for h in held:
                        if h[1][0]=="live" and h[1][1]==key: h[1][:]=["dead", v]
            elif op=="get":
                r=node.attributes.get(a)
                if (r is None)!=(key not in model): return ("get-presence",log)
                if r is not None and r.value!=model[key]: return ("get-value",log)
            elif op=="contains":
                if (a in node.attributes)!=(key in model): return ("contains",log)
                if (a in node)!=(key in model): return ("contains-node",log)
            elif op=="update":
                a2,key2=acc(); node.attributes.update({a:"u1", a2:"u2"}); model[key]="u1"; model[key2]="u2"
            elif op=="hold":
                if key in model: held.append((node.attributes[a], ["live", key]))
            elif op=="value" and held:
                h=rnd.choice(held); v="hv%d"%step; h[0].value=v
                if h[1][0]=="live": model[h[1][1]]=v
                else: h[1][1]=v
            elif op in("rename_local","rename_ns") and held:
                h=rnd.choice(held)
                if h[1][0]!="live": continue
                old=h[1][1]
                if op=="rename_local": new=(h[0].namespace, rnd.choice(NAMES)); h[0].local_name=new[1]
                else: new=(rnd.choice(NS), h[0].local_name); h[0].namespace=new[0]
                newk=norm(*new)
                if newk!=old:
                    v=model.pop(old); model[newk]=v
                    for g in held:
                        if g is not h and g[1][0]=="live" and g[1][1]==old: g[1][:]=["dead", v]
                        # other held objects on the new key stay live views of the new entry
                h[1][1]=newk
        except Exception as e:
            return ("EXC %s %s"%(type(e).__name__, e), log)
        # compare
        keys=list(node.attributes)
        if sorted(keys)!=sorted(model) : return ("keys %r %r"%(keys, list(model)), log)
        if len(node.attributes)!=len(model): return ("len",log)
        for k,v in model.items():
            if node.attributes[k].value!=v: return ("value %r"%(k,),log)
        for obj,st in held:
            try: ov=obj.value
            except Exception as e: return ("held-EXC %s"%type(e).__name__, log)
            if st[0]=="live":
                if model.get(st[1])!=ov: return ("held-live %r %r %r"%(st, ov, model.get(st[1])), log)
                if norm(obj.namespace, obj.local_name)!=st[1]: return ("held-key",log)
            else:
                if ov!=st[1]: return ("held-dead %r %r"%(st,ov),log)
    return None
bad={}
for kind in ["plain","created-ns","parsed-default","parsed-prefixed","parsed-default-other"]:
    for seed in range(1500):
        r=run(seed,kind)
        if r: bad.setdefault((kind, r[0][:50]),[]).append((seed,r))
for k,v in sorted(bad.items()):
    v.sort(key=lambda x: len(x[1][1])); print(len(v), k, v[0][0], v[0][1][1][-6:])
print("bad", sum(len(v) for v in bad.values()))
