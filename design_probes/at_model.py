"""Blueprint of Attr/AttrModel.v: TagAttributes + Attribute as the code implements them.
state: store (ordered list of (etree_key, value)), dns (in-scope default ns or None), node_ns, cache {qname: oid}, objs {oid: [attached, detached_value, qname]}"""
class KeyErr(Exception): pass
class Crash(Exception):
    def __init__(s,k): s.kind=k
class St:
    def __init__(s, node_ns, dns): s.store=[]; s.dns=dns; s.node_ns=node_ns; s.cache={}; s.objs={}; s.next=0
def clark(name):
    if name.startswith("{"):
        a,b=name.split("}",1); return a[1:],b
    return None,name
def resolve(st, item):
    if isinstance(item,str): ns,name=clark(item)
    elif isinstance(item,tuple): ns,name=item
    else: raise Crash("TypeError")
    if name is None: raise Crash("TypeError")
    if ns is None: ns=st.node_ns
    return (ns,name)
def etree_key(st, q):
    ns,name=q
    return "{%s}%s"%(ns,name) if (ns and st.dns!=ns) else name
def sget(st,k):
    for a,v in st.store:
        if a==k: return v
    raise KeyErr(k)
def shas(st,k): return any(a==k for a,_ in st.store)
def sset(st,k,v):
    for i,(a,_) in enumerate(st.store):
        if a==k: st.store[i]=(k,v); return
    st.store.append((k,v))
def sdel(st,k):
    for i,(a,_) in enumerate(st.store):
        if a==k: del st.store[i]; return
    raise KeyErr(k)
def contains(st,item): return shas(st, etree_key(st, resolve(st,item)))
def new_obj(st,q):
    o=st.next; st.next+=1; st.objs[o]=[True,None,q]; return o
def getitem(st,item):
    if contains(st,item):
        q=resolve(st,item); o=st.cache.get(q)
        if o is None: o=new_obj(st,q); st.cache[q]=o
        return o
    raise KeyErr(item)
def obj_value(st,o):
    att,dv,q=st.objs[o]
    if not att:
        if dv is None: raise Crash("AssertionError")
        return dv
    return sget(st, etree_key(st,q))
def obj_set_value(st,o,v):
    att,dv,q=st.objs[o]
    if not att: st.objs[o][1]=v
    else: sset(st, etree_key(st,q), v)
def setitem(st,item,value):
    q=resolve(st,item); k=etree_key(st,q)
    sset(st,k,value); st.cache[q]=new_obj(st,q)
def delitem(st,item):
    if not contains(st,item): raise KeyErr(item)
    q=resolve(st,item); o=getitem(st,q)
    st.objs[o][1]=obj_value(st,o)
    sdel(st, etree_key(st,q)); del st.cache[q]; st.objs[o][0]=False
def iterkeys(st):
    out=[]
    for k,_ in st.store:
        ns,name=clark(k)
        if ns is None: ns = st.dns if st.dns is not None else ""
        out.append((ns,name))
    return out
def length(st): return len(st.store)
def set_new_key(st,o,ns,name):
    att,dv,q=st.objs[o]
    if q==(ns,name): return
    cur=q
    if not att: raise Crash("AssertionError")
    setitem(st,(ns,name), obj_value(st,o))
    st.objs[o][2]=(ns,name)
    delitem(st,cur)
    st.objs[o][0]=True
def pop(st,item):   # MutableMapping.pop with default None
    try: o=getitem(st,item)
    except KeyErr: return None
    delitem(st,item); return o
