import random, sys, traceback
from delb import *
from _delb.nodes import TextNode, TagNode, CommentNode, ProcessingInstructionNode, NodeBase
from _delb.exceptions import InvalidOperation

class O:  # oracle node
    __slots__=("kind","name","ns","attrs","content","target","kids","parent","real")
    def __init__(s, kind, **kw):
        s.kind=kind; s.name=kw.get("name"); s.ns=kw.get("ns",""); s.attrs=dict(kw.get("attrs",{})); s.content=kw.get("content"); s.target=kw.get("target"); s.kids=[]; s.parent=None; s.real=None
def o_index(n): return next(i for i,k in enumerate(n.parent.kids) if k is n)
def o_detach(n):
    if n.parent is not None:
        n.parent.kids.remove(n); n.parent=None
def o_insert(parent, idx, n):
    assert n.parent is None
    parent.kids.insert(idx, n); n.parent=parent

def from_real(r):
    if isinstance(r, TagNode):
        o = O("tag", name=r.local_name, ns=r.namespace, attrs={k: r.attributes[k].value for k in r.attributes})
        with altered_default_filters():
            for c in r.iterate_children():
                k = from_real(c); k.parent=o; o.kids.append(k)
    elif isinstance(r, TextNode): o = O("text", content=r.content)
    elif isinstance(r, CommentNode): o = O("comment", content=r.content)
    else: o = O("pi", target=r.target, content=r.content)
    o.real=r
    return o
def check(o, path="/"):
    r=o.real
    kind = {TagNode:"tag",TextNode:"text",CommentNode:"comment",ProcessingInstructionNode:"pi"}[type(r)]
    if kind!=o.kind: return f"kind {path}"
    if kind=="tag":
        if (r.local_name, r.namespace)!=(o.name,o.ns): return f"name {path} {(r.local_name, r.namespace)} {(o.name,o.ns)}"
        ra={k: r.attributes[k].value for k in r.attributes}
        if ra!=o.attrs: return f"attrs {path} {ra} {o.attrs}"
        with altered_default_filters():
            rk=list(r.iterate_children())
        if len(rk)!=len(o.kids): return f"len {path} {len(rk)} {len(o.kids)} {[str(x) for x in rk]}"
        for i,(a,b) in enumerate(zip(rk,o.kids)):
            if a is not b.real: return f"identity {path}{i}"
            with altered_default_filters():
                if a.parent is not r: return f"parent {path}{i}"
            e=check(b, path+str(i)+"/")
            if e: return e
    else:
        if r.content!=o.content: return f"content {path} {r.content!r} {o.content!r}"
        if kind=="pi" and r.target!=o.target: return f"target {path}"
    return None
def all_nodes(o, acc=None):
    acc = [] if acc is None else acc
    acc.append(o)
    for k in o.kids: all_nodes(k, acc)
    return acc

DOCS = ['<r>a<x/>b<!--c-->d<y>e<z/>f</y>g</r>', '<r><x/><y/></r>', '<r>t</r>', '<r/>', '<r xmlns="d">a<x k="v">b</x>c<?p q?></r>',
        '<r><x>1<i/>2<j/>3</x>4<y/>5</r>']
def run(seed, nops=12, verbose=False):
    rnd=random.Random(seed)
    log=[]
    roots=[]  # oracle roots (trees + loose nodes)
    for _ in range(rnd.randint(1,2)):
        d = Document(rnd.choice(DOCS)); roots.append((from_real(d.root), d))
    loose=[]
    def fresh():
        q=rnd.random()
        if q<.4:
            s=rnd.choice(["T","uu"," ","w w"]); return ("str", s)
        if q<.55:
            t=new_tag_node(rnd.choice(["n","m"])); o=from_real(t); return ("node", o)
        if q<.65:
            c=new_comment_node("cc"); return ("node", from_real(c))
        if q<.7:
            p=new_processing_instruction_node("tt","pp"); return ("node", from_real(p))
        if q<.8: return ("tagdef", rnd.choice(["td","te"]))
        if loose: 
            o=rnd.choice(loose); loose.remove(o); return ("node", o)
        return ("str","L")
    def realize(src, ctx_parent_o):
        # returns (arg for API, function to make oracle node after call given returned real node)
        kind,v=src
        if kind=="str": return v, (lambda real: _mk(O("text", content=v), real))
        if kind=="node": return v.real, (lambda real: v)
        if kind=="tagdef": return tag(v), (lambda real: _mk(O("tag", name=v, ns=real.namespace, attrs={}), real))
    def _mk(o, real): o.real=real; return o
    for step in range(nops):
        nodes=[n for ro,_ in roots for n in all_nodes(ro)]
        tags=[n for n in nodes if n.kind=="tag"]
        op=rnd.choice(["append","prepend","insert","follow","precede","detach","detach_retain","replace","setitem","delitem","content","merge"])
        try:
            with altered_default_filters():
                if op in("append","prepend"):
                    t=rnd.choice(tags); k=rnd.randint(1,3); srcs=[fresh() for _ in range(k)]
                    args=[]; mks=[]
                    for s in srcs:
                        a,m=realize(s,t); args.append(a); mks.append(m)
                    log.append((op, nodes.index(t), [s[0] if s[0]!="node" else "node:"+s[1].kind for s in srcs]))
                    res = t.real.append_children(*args) if op=="append" else t.real.prepend_children(*args)
                    os_=[m(r) for m,r in zip(mks,res)]
                    if op=="append":
                        for o in os_: o_insert(t, len(t.kids), o)
                    else:
                        for i,o in enumerate(os_): o_insert(t, i, o)
                elif op=="insert":
                    t=rnd.choice(tags); idx=rnd.randint(0,len(t.kids)); k=rnd.randint(1,2); srcs=[fresh() for _ in range(k)]
                    args=[]; mks=[]
                    for s in srcs:
                        a,m=realize(s,t); args.append(a); mks.append(m)
                    log.append((op, nodes.index(t), idx, [s[0] for s in srcs]))
                    res=t.real.insert_children(idx,*args)
                    for i,(m,r) in enumerate(zip(mks,res)): o_insert(t, idx+i, m(r))
                elif op in("follow","precede"):
                    cands=[n for n in nodes if n.parent is not None]
                    if not cands: continue
                    t=rnd.choice(cands); k=rnd.randint(1,3); srcs=[fresh() for _ in range(k)]
                    args=[]; mks=[]
                    for s in srcs:
                        a,m=realize(s,t.parent); args.append(a); mks.append(m)
                    log.append((op, nodes.index(t), [s[0] for s in srcs]))
                    if op=="follow":
                        res=t.real.add_following_siblings(*args)
                        i=o_index(t)
                        for j,(m,r) in enumerate(zip(mks,res)): o_insert(t.parent, i+1+j, m(r))
                    else:
                        res=t.real.add_preceding_siblings(*args)
                        for (m,r) in zip(mks,res):
                            i=o_index(t); 
                            # each subsequent goes before the previous added
                        # implement: first before t, next before first, ...
                        anchor=t
                        for (m,r) in zip(mks,res):
                            o=m(r); o_insert(t.parent, o_index(anchor), o); anchor=o
                elif op=="detach":
                    cands=[n for n in nodes if n.parent is not None]
                    if not cands: continue
                    t=rnd.choice(cands); log.append((op,nodes.index(t)))
                    r=t.real.detach(); assert r is t.real
                    o_detach(t); loose.append(t)
                elif op=="detach_retain":
                    cands=[n for n in nodes if n.parent is not None and n.kind=="tag"]
                    if not cands: continue
                    t=rnd.choice(cands); log.append((op,nodes.index(t)))
                    t.real.detach(retain_child_nodes=True)
                    p=t.parent; i=o_index(t); ks=list(t.kids); o_detach(t)
                    for k in ks: o_detach(k)
                    for j,k in enumerate(ks): o_insert(p, i+j, k)
                    loose.append(t)
                elif op=="replace":
                    cands=[n for n in nodes if n.parent is not None]
                    if not cands: continue
                    t=rnd.choice(cands); s=fresh(); a,m=realize(s,t.parent); log.append((op,nodes.index(t),s[0]))
                    # find what object gets inserted: replace_with returns removed node; inserted is next sibling before detach
                    p=t.parent; i=o_index(t)
                    r=t.real.replace_with(a); assert r is t.real
                    with altered_default_filters(): newreal=list(p.real.iterate_children())[i]
                    o_detach(t); o_insert(p, i, m(newreal)); loose.append(t)
                elif op=="setitem":
                    t=rnd.choice(tags); 
                    if not t.kids: continue
                    i=rnd.randrange(len(t.kids))
                    s=fresh(); a,m=realize(s,t); log.append((op,nodes.index(t),i,s[0]))
                    t.real[i]=a
                    with altered_default_filters(): newreal=list(t.real.iterate_children())[i]
                    if t.kids:
                        old=t.kids[i]; o_detach(old); loose.append(old)
                    o_insert(t,i,m(newreal))
                elif op=="delitem":
                    t=rnd.choice(tags)
                    if not t.kids: continue
                    i=rnd.randrange(len(t.kids)); log.append((op,nodes.index(t),i))
                    del t.real[i]
                    old=t.kids[i]; o_detach(old); loose.append(old)
                elif op=="content":
                    cands=[n for n in nodes if n.kind=="text"]
                    if not cands: continue
                    t=rnd.choice(cands); s=rnd.choice(["X","Q q","y y"]); log.append((op,nodes.index(t),s))
                    t.real.content=s; t.content=s
                elif op=="merge":
                    t=rnd.choice(tags); log.append((op,nodes.index(t)))
                    t.real.merge_text_nodes()
                    def om(n):
                        i=0
                        while i<len(n.kids):
                            k=n.kids[i]
                            if k.kind=="text":
                                while i+1<len(n.kids) and n.kids[i+1].kind=="text":
                                    k.content+=n.kids[i+1].content; g=n.kids.pop(i+1); g.parent=None
                                if k.content=="":
                                    n.kids.pop(i); k.parent=None; loose.append(k); continue
                            else: om(k)
                            i+=1
                    om(t)
        except Exception as e:
            return ("EXC", seed, log, "".join(traceback.format_exception_only(type(e),e)).strip(), traceback.format_exc().splitlines()[-3].strip())
        for ro,_ in roots:
            e=check(ro)
            if e: return ("MISMATCH", seed, log, e)
        for lo in loose:
            if lo.kind in("tag",):
                e=check(lo)
                if e: return ("MISMATCH-loose", seed, log, e)
    return None
def _main():
    bad={}
    N=int(sys.argv[1]) if len(sys.argv)>1 else 3000
    for seed in range(N):
        r=run(seed)
        if r:
            key=(r[0], r[3].split(" ")[0] if r[0]!="EXC" else r[3][:60])
            bad.setdefault(key,[]).append(r)
    for k,v in sorted(bad.items(), key=lambda kv:-len(kv[1])):
        v.sort(key=lambda r: len(r[2]))
        print(len(v), k); print("    ", v[0][1], v[0][2], v[0][3:] )
    print("runs", N, "bad", sum(len(v) for v in bad.values()))
    
if __name__=='__main__': _main()
