import random, sys, gc
gc.disable()
from delb import *
from _delb.nodes import TextNode, TagNode
from _delb.exceptions import AmbiguousTreeError, XPathParsingError
rnd=random.Random(4)
def gen(depth=0, ns=""):
    name=rnd.choice(["a","b"])
    attrs="".join(' %s="%s"'%(k,rnd.choice(["1","2"])) for k in rnd.sample(["x","y"], rnd.randint(0,2)))
    kids=""
    if depth<3:
        for _ in range(rnd.randint(0,3)):
            q=rnd.random()
            kids+= gen(depth+1) if q<.6 else rnd.choice(["t","<!--c-->"," "])
    return "<%s%s>%s</%s>"%(name,attrs,kids,name)
def gen_path():
    steps=[]
    for _ in range(rnd.randint(1,3)):
        s=rnd.choice(["a","b","c"])
        preds=[]
        for k in rnd.sample(["x","y"], rnd.randint(0,2)):
            preds.append("@%s='%s'"%(k,rnd.choice(["1","2"])))
        if preds:
            if rnd.random()<.5: s+="["+" and ".join(preds)+"]"
            else: s+="".join("[%s]"%p for p in preds)
        steps.append(s)
    return "/".join(steps)
def shape(r, ids):
    with altered_default_filters():
        if isinstance(r, TagNode):
            return (ids.get(id(r)), r.local_name, r.namespace, tuple(sorted((k, r.attributes[k].value) for k in r.attributes)), tuple(shape(c,ids) for c in r.iterate_children()))
        return (ids.get(id(r)), type(r).__name__, r.content)
def strip_new(s):
    # remove subtrees whose id is None (new nodes)
    if len(s)==5:
        return (s[0],s[1],s[2],s[3],tuple(strip_new(k) for k in s[4] if k[0] is not None))
    return s
bad={}
stats={"ok":0,"amb":0,"rej":0}
for i in range(6000):
    ns_decl = ''
    src="<root%s>%s</root>"%(ns_decl, "".join(gen(1) for _ in range(rnd.randint(0,3))))
    d=Document(src); root=d.root
    with altered_default_filters():
        nodes=[root]+list(root.iterate_descendants())
    ids={id(n):j for j,n in enumerate(nodes)}
    ctx=rnd.choice([n for n in nodes if isinstance(n,TagNode)])
    p=gen_path()
    absolute=rnd.random()<.2
    if absolute: p="/root/"+p
    before=shape(root,ids)
    try:
        res=ctx.fetch_or_create_by_xpath(p)
    except AmbiguousTreeError:
        stats["amb"]+=1
        if shape(root,ids)!=before: bad.setdefault("AMB-changed",[]).append((src,p))
        continue
    except Exception as e:
        bad.setdefault("EXC "+type(e).__name__,[]).append((src,p,ids[id(ctx)])); 
        if shape(root,ids)!=before: bad.setdefault("EXC-changed",[]).append((src,p))
        continue
    stats["ok"]+=1
    after=shape(root,ids)
    q=ctx.xpath(p)
    if q.size!=1 or q[0] is not res: bad.setdefault("NOT-SELECTED size=%d"%q.size,[]).append((src,p,ids[id(ctx)])); continue
    if strip_new(after)!=before: bad.setdefault("OLD-CHANGED",[]).append((src,p,ids[id(ctx)])); continue
    res2=ctx.fetch_or_create_by_xpath(p)
    if res2 is not res or shape(root,ids)!=after: bad.setdefault("NOT-IDEMPOTENT",[]).append((src,p)); continue
    # minimality: number of new nodes <= steps ; new nodes form a chain
    def count_new(s): 
        return (1 if s[0] is None else 0)+ (sum(count_new(k) for k in s[4]) if len(s)==5 else 0)
    nsteps=len([x for x in p.split("/") if x]) - (1 if absolute else 0)
    if count_new(after)>nsteps: bad.setdefault("NOT-MINIMAL",[]).append((src,p))
print(stats)
for k,v in bad.items():
    v.sort(key=lambda x: len(x[0])); print(len(v),k,v[0])
