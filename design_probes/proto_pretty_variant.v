From Coq Require Import List NArith Bool Lia.
Import ListNotations.
Require Import Base proto_ws_padding proto_variant_erased.

(* Part B in miniature: the (tree-level effect of the) indenting serializer only produces legal variants. *)
Section Pretty.
Variable ind : str.
Hypothesis ind_ws : all_ws ind.
Definition NL : str := [10%N].
Fixpoint rep (n : nat) (s : str) : str := match n with 0 => [] | S n' => s ++ rep n' s end.
Lemma all_ws_app a b : all_ws a -> all_ws b -> all_ws (a ++ b).
Proof. intros. apply Forall_app; split; assumption. Qed.
Lemma all_ws_rep n : all_ws (rep n ind).
Proof. induction n; cbn; [constructor|apply all_ws_app; assumption]. Qed.
Lemma all_ws_NL : all_ws NL. Proof. repeat constructor. Qed.
Lemma all_ws_optsp b : all_ws (optsp b). Proof. destruct b; repeat constructor. Qed.
Hint Resolve all_ws_app all_ws_rep all_ws_NL all_ws_optsp : ws.

Definition is_sp_only (s : str) : bool := match s with [c] => N.eqb c SP | _ => false end.

(* what a re-parse of the indented output sees as the children of an element at nesting level L:
   pieces written by _handle_child_nodes / serialize_node / _serialize_text, merged per text run *)
Definition text_out (L : nat) (prev : sib) (last : bool) (s : str) : str :=
  let lb := (is_start prev || startswith_sp s)%bool in        (* _whitespace_is_legit_before_node *)
  let la := (last || endswith_sp s)%bool in                   (* _whitespace_is_legit_after_node *)
  let pre := if lb then NL else [] in                         (* newline after the opening tag / the previous sibling *)
  let body := if (negb (null ind) && lb)%bool then rep L ind ++ lstrip s else s in
  let body' := if la then rstrip body ++ NL else body in
  let post := if negb (null ind) then (if last then rep (L - 1) ind else if endswith_sp s then rep L ind else []) else [] in
  pre ++ body' ++ post.
Definition space_out (L : nat) (last : bool) : str :=
  NL ++ (if negb (null ind) then (if last then rep (L - 1) ind else rep L ind) else []).

Definition pk_items (rec : nat -> tree -> tree) (L : nat) :=
  fix go (prev : sib) (l : list tree) : list tree :=
    match l with
    | [] => match prev with AfterN => [X (NL ++ (if negb (null ind) then rep (L - 1) ind else []))] | _ => [] end
    | k :: r =>
        match k with
        | N _ =>
            (match prev with Start => [X (NL ++ (if negb (null ind) then rep L ind else []))] | _ => [] end)
            ++ rec L k :: go AfterN r
        | X s =>
            (if is_sp_only s then X (space_out L (null r)) else X (text_out L prev (null r) s)) :: go AfterX r
        end
    end.
Fixpoint pk (L : nat) (t : tree) : tree :=
  match t with X s => X s | N ks => N (pk_items pk (S L) Start ks) end.

(* normal form, as a predicate of its own (the input side of wv) *)
Inductive nf : sib -> list tree -> Prop :=
| nf_nil prev : nf prev []
| nf_N prev ks r : nfk ks -> nf AfterN r -> nf prev (N ks :: r)
| nf_X prev lead trail k r : core k -> prev <> AfterX ->
    (prev = Start -> lead = false) -> (r = [] -> trail = false) ->
    nf AfterX r -> nf prev (X (optsp lead ++ k ++ optsp trail) :: r)
| nf_space r : r <> [] -> nf AfterX r -> nf AfterN (X [SP] :: r)
with nfk : list tree -> Prop :=
| nfk_only_space : nfk [X [SP]]
| nfk_list l : nf Start l -> nfk l.
Scheme nf_mut := Induction for nf Sort Prop with nfk_mut := Induction for nfk Sort Prop.

Lemma core_not_sp_only lead k trail : core k -> is_sp_only (optsp lead ++ k ++ optsp trail) = false.
Proof.
  intros (Hh & Hl & _). destruct lead; cbn [optsp app].
  - destruct k as [|c k]; [cbn in Hh; tauto|]. reflexivity.
  - destruct k as [|c [|d k]]; [cbn in Hh; tauto| |destruct trail; reflexivity].
    cbn in Hh. destruct trail; cbn; [reflexivity|].
    destruct (N.eqb_spec c SP); [subst; rewrite is_ws_SP in Hh; discriminate|reflexivity].
Qed.

Lemma null_opt w : null (NL ++ w) = false. Proof. reflexivity. Qed.

(* the padded form of a content text *)
Ltac ws_tac := repeat first [ apply Forall_nil | apply all_ws_NL | apply all_ws_rep | apply all_ws_optsp | apply all_ws_app ].
Ltac fin_lead prev lead := let Hp := fresh in intros Hp; destruct prev; cbn in *; try congruence; destruct lead; try discriminate; reflexivity.

Lemma text_out_form L prev last lead trail k :
  core k -> (prev = Start -> lead = false) -> (last = true -> trail = false) -> prev <> AfterX ->
  exists w1 w2, text_out L prev last (optsp lead ++ k ++ optsp trail) = w1 ++ k ++ w2
    /\ all_ws w1 /\ all_ws w2
    /\ (prev <> Start -> null w1 = negb lead) /\ (last = false -> null w2 = negb trail).
Proof.
  intros Hk Hl Ht Hpx. destruct Hk as (Hh & Hlast & Hc).
  unfold text_out.
  assert (Hsw : startswith_sp (optsp lead ++ k ++ optsp trail) = lead)
    by (destruct lead; cbn [optsp app]; [reflexivity|apply startswith_core; exact Hh]).
  rewrite Hsw, (endswith_core (optsp lead) k trail Hlast).
  rewrite (lstrip_optsp lead k (optsp trail) Hh).
  assert (Hlb : (is_start prev || lead)%bool = false -> lead = false /\ prev = AfterN).
  { intros E. apply orb_false_elim in E as [E1 E2]. split; [exact E2|]. destruct prev; [discriminate|reflexivity|congruence]. }
  assert (Hla : (last || trail)%bool = false -> last = false /\ trail = false) by (intros E; apply orb_false_elim in E; exact E).
  assert (Hlt : last = true -> (last || trail)%bool = true) by (intros ->; reflexivity).
  destruct (null ind) eqn:Ei; cbn [negb andb].
  - (* no indentation string *)
    destruct (is_start prev || lead)%bool eqn:Elb; destruct (last || trail)%bool eqn:Ela.
    + rewrite (rstrip_optsp (optsp lead) k trail Hlast).
      exists (NL ++ optsp lead), NL. rewrite <- !app_assoc, app_nil_r.
      split; [reflexivity|]. split; [ws_tac|]. split; [ws_tac|]. split; [fin_lead prev lead|].
      intros ->. cbn in Ela. subst trail. reflexivity.
    + destruct (Hla eq_refl) as [-> ->].
      exists (NL ++ optsp lead), []. cbn [optsp]. rewrite !app_nil_r, <- !app_assoc.
      split; [reflexivity|]. split; [ws_tac|]. split; [ws_tac|]. split; [fin_lead prev lead|reflexivity].
    + destruct (Hlb eq_refl) as [-> ->]. cbn [optsp app].
      rewrite (rstrip_optsp0 k trail Hlast).
      exists [], NL. cbn [app]. rewrite app_nil_r.
      split; [reflexivity|]. split; [ws_tac|]. split; [ws_tac|]. split; [reflexivity|].
      intros ->. cbn in Ela. subst trail. reflexivity.
    + destruct (Hlb eq_refl) as [-> ->]. destruct (Hla eq_refl) as [-> ->].
      exists [], []. cbn [optsp app]. rewrite !app_nil_r.
      split; [reflexivity|]. split; [ws_tac|]. split; [ws_tac|]. split; reflexivity.
  - (* with an indentation string *)
    destruct (is_start prev || lead)%bool eqn:Elb; destruct (last || trail)%bool eqn:Ela.
    + rewrite <- app_assoc. rewrite (rstrip_optsp (rep L ind) k trail Hlast).
      exists (NL ++ rep L ind), (NL ++ (if last then rep (L - 1) ind else if trail then rep L ind else [])).
      rewrite <- !app_assoc.
      split; [reflexivity|]. split; [ws_tac|]. split; [ws_tac; destruct last; [|destruct trail]; ws_tac|]. split; [fin_lead prev lead|].
      intros ->. cbn in Ela. subst trail. reflexivity.
    + destruct (Hla eq_refl) as [-> ->].
      exists (NL ++ rep L ind), []. cbn [optsp]. rewrite !app_nil_r, <- !app_assoc.
      split; [reflexivity|]. split; [ws_tac|]. split; [ws_tac|]. split; [fin_lead prev lead|reflexivity].
    + destruct (Hlb eq_refl) as [-> ->]. cbn [optsp app].
      rewrite (rstrip_optsp0 k trail Hlast).
      exists [], (NL ++ (if last then rep (L - 1) ind else if trail then rep L ind else [])).
      cbn [app]. rewrite <- !app_assoc.
      split; [reflexivity|]. split; [ws_tac|]. split; [ws_tac; destruct last; [|destruct trail]; ws_tac|]. split; [reflexivity|].
      intros ->. cbn in Ela. subst trail. reflexivity.
    + destruct (Hlb eq_refl) as [-> ->]. destruct (Hla eq_refl) as [-> ->].
      exists [], []. cbn [optsp app]. rewrite !app_nil_r.
      split; [reflexivity|]. split; [ws_tac|]. split; [ws_tac|]. split; reflexivity.
Qed.

Definition Pnf (prev : sib) (l : list tree) (_ : nf prev l) : Prop :=
  forall L, wv prev l (pk_items pk L prev l).
Definition Pnfk (l : list tree) (_ : nfk l) : Prop :=
  forall L, wvk l (pk_items pk L Start l).

Lemma ws_nl_opt n : all_ws (NL ++ (if negb (null ind) then rep n ind else [])).
Proof. destruct (null ind); cbn [negb]; ws_tac. Qed.

Theorem pretty_is_variant : forall prev l (H : nf prev l), Pnf prev l H.
Proof.
  apply (nf_mut Pnf Pnfk); unfold Pnf, Pnfk.
  - intros prev L. destruct prev; cbn [pk_items].
    + constructor.
    + apply (wv_nil_afterN (NL ++ (if negb (null ind) then rep (L - 1) ind else []))). apply ws_nl_opt.
    + constructor.
  - intros prev ks r Hk IHk Hr IHr L. cbn [pk_items pk]. fold (pk_items pk).
    destruct prev.
    + apply (wv_N_start (NL ++ (if negb (null ind) then rep L ind else []))); auto. apply ws_nl_opt.
    + apply wv_N; [discriminate|auto|auto].
    + apply wv_N; [discriminate|auto|auto].
  - intros prev lead trail k r Hk Hp Hl Ht Hr IHr L. cbn [pk_items]. fold (pk_items pk).
    rewrite core_not_sp_only by exact Hk.
    destruct (text_out_form L prev (null r) lead trail k Hk Hl) as (w1 & w2 & E & H1 & H2 & Hw1 & Hw2).
    { intros Hn. apply Ht. destruct r; [reflexivity|discriminate]. }
    { exact Hp. }
    rewrite E. apply wv_X; auto.
    intros Hrn. apply Hw2. destruct r; [congruence|reflexivity].
  - intros r Hrn Hr IHr L. cbn [pk_items is_sp_only]. fold (pk_items pk).
    replace (N.eqb SP SP) with true by reflexivity.
    apply wv_space; auto.
    + unfold space_out. destruct (null ind); cbn [negb]; [ws_tac|]. destruct (null r); ws_tac.
    + discriminate.
  - intros L. cbn [pk_items is_sp_only]. replace (N.eqb SP SP) with true by reflexivity.
    apply wvk_only_space; [|discriminate].
    unfold space_out. destruct (null ind); cbn [negb null]; ws_tac.
  - intros l Hl IH L. apply wvk_list. apply IH.
Qed.

Theorem pretty_kids_variant ks L : nfk ks -> wvk ks (pk_items pk L Start ks).
Proof.
  intros H. inversion H as [|l Hl]; subst.
  - cbn [pk_items is_sp_only]. replace (N.eqb SP SP) with true by reflexivity.
    apply wvk_only_space; [|discriminate].
    unfold space_out. destruct (null ind); cbn [negb null]; ws_tac.
  - apply wvk_list. apply (pretty_is_variant Start ks Hl).
Qed.

(* parts A and B together: re-reading the indented output and reducing it gives the tree back *)
Theorem pretty_transparent ks L : nfk ks -> red (pk L (N ks)) = N ks.
Proof.
  intros H. cbn [pk red]. f_equal.
  pose proof (pretty_kids_variant ks (S L) H) as Hv.
  change (red_items red) with red_kids.
  remember (pk_items pk (S L) Start ks) as out eqn:Eo. clear Eo.
  destruct Hv as [w Hw Hn | l l' Hwv].
  - rewrite red_cons_X. rewrite spec_ws_only by assumption. reflexivity.
  - exact (variant_erased Start l l' Hwv).
Qed.
End Pretty.
Print Assumptions pretty_transparent.
