"""Prototype of translate/py2coq.py: fail-closed translation of straight-line string functions to Gallina."""
import ast, sys
class Unsupported(Exception): pass
def lit(s):
    return "[" + "; ".join("%d%%N"%ord(c) for c in s) + "]"
STR_METHODS={"strip":("py_strip",0),"lstrip":("py_lstrip",0),"rstrip":("py_rstrip",0),"startswith":("py_startswith",1),"endswith":("py_endswith",1)}
FUNCS={"_crunch_whitespace":"py_crunch_whitespace","bool":"py_bool_str","len":"py_len"}
def tr_expr(e):
    if isinstance(e, ast.Name): return e.id
    if isinstance(e, ast.Constant):
        if isinstance(e.value,str): return lit(e.value)
        if isinstance(e.value,bool): return "true" if e.value else "false"
        raise Unsupported(ast.dump(e))
    if isinstance(e, ast.JoinedStr):
        parts=[]
        for v in e.values:
            if isinstance(v, ast.Constant): parts.append(lit(v.value))
            elif isinstance(v, ast.FormattedValue) and v.conversion==-1 and v.format_spec is None: parts.append(tr_expr(v.value))
            else: raise Unsupported(ast.dump(v))
        return "(" + " ++ ".join(parts) + ")"
    if isinstance(e, ast.BoolOp):
        op = " && " if isinstance(e.op, ast.And) else " || "
        return "(" + op.join(tr_expr(v) for v in e.values) + ")%bool"
    if isinstance(e, ast.UnaryOp) and isinstance(e.op, ast.Not): return "(negb %s)"%tr_expr(e.operand)
    if isinstance(e, ast.Call):
        if isinstance(e.func, ast.Attribute) and e.func.attr in STR_METHODS and not e.keywords:
            f,n=STR_METHODS[e.func.attr]
            if len(e.args)!=n: raise Unsupported("arity "+ast.dump(e))
            return "(%s %s)"%(f, " ".join([tr_expr(e.func.value)]+[tr_expr(a) for a in e.args]))
        if isinstance(e.func, ast.Name) and e.func.id in FUNCS and not e.keywords:
            return "(%s %s)"%(FUNCS[e.func.id], " ".join(tr_expr(a) for a in e.args))
    raise Unsupported(ast.dump(e))
def assigned(stmts):
    out=[]
    for s in stmts:
        if isinstance(s, ast.Assign) and len(s.targets)==1 and isinstance(s.targets[0], ast.Name): out.append(s.targets[0].id)
        elif isinstance(s, ast.AugAssign) and isinstance(s.target, ast.Name): out.append(s.target.id)
        elif isinstance(s, ast.If): out+=assigned(s.body)+assigned(s.orelse)
        elif isinstance(s,(ast.Return,ast.Expr)): pass
        else: raise Unsupported(ast.dump(s))
    return list(dict.fromkeys(out))
def tr_block(stmts, result_vars=None):
    """returns Gallina expr; if result_vars given, block must not return and yields tuple of those vars"""
    if not stmts:
        if result_vars is None: raise Unsupported("function falls off the end")
        return "(" + ", ".join(result_vars) + ")" if len(result_vars)!=1 else result_vars[0]
    s,rest=stmts[0],stmts[1:]
    if isinstance(s, ast.Expr) and isinstance(s.value, ast.Constant): return tr_block(rest, result_vars)   # docstring / comments
    if isinstance(s, ast.Return):
        if result_vars is not None: raise Unsupported("return inside branch")
        return tr_expr(s.value)
    if isinstance(s, ast.Assign) and len(s.targets)==1 and isinstance(s.targets[0], ast.Name):
        return "let %s := %s in\n  %s"%(s.targets[0].id, tr_expr(s.value), tr_block(rest,result_vars))
    if isinstance(s, ast.AugAssign) and isinstance(s.op, ast.Add) and isinstance(s.target, ast.Name):
        return "let %s := (%s ++ %s) in\n  %s"%(s.target.id, s.target.id, tr_expr(s.value), tr_block(rest,result_vars))
    if isinstance(s, ast.If):
        vs=assigned(s.body)+[v for v in assigned(s.orelse) if v not in assigned(s.body)]
        if any(isinstance(x, ast.Return) for x in ast.walk(s)): raise Unsupported("return inside if")
        pat = vs[0] if len(vs)==1 else "'(" + ", ".join(vs) + ")"
        return "let %s := (if %s then %s else %s) in\n  %s"%(pat, tr_expr(s.test), tr_block(s.body, vs), tr_block(s.orelse, vs), tr_block(rest,result_vars))
    raise Unsupported(ast.dump(s))
def find(tree, qual):
    parts=qual.split(".")
    node=tree
    for p in parts:
        node=next(n for n in node.body if isinstance(n,(ast.ClassDef,ast.FunctionDef)) and n.name==p)
    return node
def tr_function(src, qual, coqname, argtypes, rettype):
    f=find(ast.parse(src), qual)
    args=[a.arg for a in f.args.args if a.arg!="self"]
    if f.args.vararg or f.args.kwarg or f.args.kwonlyargs or f.args.defaults: raise Unsupported("signature")
    binders=" ".join("(%s : %s)"%(a,t) for a,t in zip(args,argtypes))
    return "Definition %s %s : %s :=\n  %s."%(coqname, binders, rettype, tr_block(f.body))
if __name__=="__main__":
    src=open("/repo/_delb/nodes.py").read()
    print(tr_function(src, "TagNode._reduce_whitespace_content", "reduce_whitespace_content", ["str","bool","bool"], "str"))
