import random, sys, gc, copy
gc.disable()
from delb import *
from _delb.nodes import TextNode, TagNode, CommentNode, ProcessingInstructionNode
rnd=random.Random(3)
def gen(depth=0):
    name=rnd.choice(["a","b"]); ns=rnd.choice(["","u"]); attrs={}
    for k in rnd.sample(["k","j",("u","k")], rnd.randint(0,2)): attrs[k]=rnd.choice(["1","2"])
    kids=[]
    for _ in range(rnd.randint(0,3)):
        q=rnd.random()
        if q<.3: kids.append(rnd.choice(["t","u"]))
        elif q<.4: kids.append(("c",rnd.choice(["c1","c2"])))
        elif q<.5: kids.append(("pi",rnd.choice(["p","q"]),rnd.choice(["x","y"])))
        elif depth<3: kids.append(gen(depth+1))
    return ("tag",name,ns,attrs,kids)
def build(t):
    if isinstance(t,str): return t
    if t[0]=="c": return new_comment_node(t[1])
    if t[0]=="pi": return new_processing_instruction_node(t[1],t[2])
    return new_tag_node(t[1], dict(t[3]), namespace=t[2] or None, children=[build(k) for k in t[4]])
def paths(t, p=()):
    out=[p]
    if not isinstance(t,str) and t[0]=="tag":
        for i,k in enumerate(t[4]): out+=paths(k,p+(i,))
    return out
def get(t,p):
    for i in p: t=t[4][i]
    return t
def setp(t,p,new):
    if not p: return new
    kids=list(t[4]); kids[p[0]]=setp(kids[p[0]],p[1:],new); return (t[0],t[1],t[2],t[3],kids)
def mutate(t):
    p=rnd.choice(paths(t)); n=get(t,p)
    kind=None
    if isinstance(n,str): 
        m=rnd.choice(["chg","kind","del"]); 
        if m=="chg": new=n+"!"
        elif m=="kind": new=("c",n)
        else: new=None
    elif n[0]=="c": new=rnd.choice([("c",n[1]+"!"),("pi","p",n[1]), n[1]]); m="c"
    elif n[0]=="pi": new=rnd.choice([("pi",n[1]+"x",n[2]),("pi",n[1],n[2]+"!")]); m="pi"
    else:
        m=rnd.choice(["name","ns","attr+","attr-","attrv","kid+","kid-","swap"])
        a=dict(n[3]); kids=list(n[4])
        if m=="name": new=("tag",n[1]+"x",n[2],a,kids)
        elif m=="ns": new=("tag",n[1],"v" if n[2]!="v" else "",a,kids)
        elif m=="attr+": a["zz"]="1"; new=("tag",n[1],n[2],a,kids)
        elif m=="attr-":
            if not a: return None
            a.pop(rnd.choice(list(a))); new=("tag",n[1],n[2],a,kids)
        elif m=="attrv":
            if not a: return None
            k=rnd.choice(list(a)); a[k]+="!"; new=("tag",n[1],n[2],a,kids)
        elif m=="kid+": kids.insert(rnd.randint(0,len(kids)), rnd.choice(["T",("c","C"),("tag","n","",{},[])])); new=("tag",n[1],n[2],a,kids)
        elif m=="kid-":
            if not kids: return None
            kids.pop(rnd.randrange(len(kids))); new=("tag",n[1],n[2],a,kids)
        else:
            if len(kids)<2: return None
            i=rnd.randrange(len(kids)-1)
            if kids[i]==kids[i+1]: return None
            kids[i],kids[i+1]=kids[i+1],kids[i]; new=("tag",n[1],n[2],a,kids)
    if new is None:
        if not p: return None
        par=get(t,p[:-1]); kids=list(par[4]); kids.pop(p[-1]); return setp(t,p[:-1],("tag",par[1],par[2],par[3],kids)), "del"
    if not p and (isinstance(new,str) or new[0]!="tag"): return None
    return setp(t,p,new), m
def norm(t):
    # merge adjacent strings (API appends them as separate text nodes -> different trees!) keep as is
    return t
bad={}
for i in range(4000):
    t=gen()
    a=build(t); b=build(t)
    with altered_default_filters():
        if not compare_trees(a,b) or not compare_trees(b,a): bad.setdefault("equal-reported-unequal",[]).append(t)
    r=mutate(t)
    if r is None: continue
    t2,m=r
    if t2==t: continue
    c=build(t2)
    with altered_default_filters():
        x=bool(compare_trees(a,c)); y=bool(compare_trees(c,a))
        if x or y: bad.setdefault(("unequal-reported-equal",m),[]).append((t,t2))
        if x!=y: bad.setdefault(("asym",m),[]).append((t,t2))
        try: str(compare_trees(a,c)); str(compare_trees(c,a))
        except Exception as e: bad.setdefault(("str-exc",type(e).__name__,m),[]).append((t,t2))
for k,v in bad.items(): print(len(v),k,str(v[0])[:300])
print("done")
