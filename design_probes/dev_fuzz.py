import random, sys, gc, collections, re
gc.disable()
from delb import *
from _delb.exceptions import XPathEvaluationError
import xp_model as P, xe_ref as R, f7, xe_fuzz_lib as L, ser_model as S
R.DEV=True
rnd=random.Random(int(sys.argv[2]) if len(sys.argv)>2 else 1)
N=int(sys.argv[1]) if len(sys.argv)>1 else 3000
f7.AXES[:]=f7.AXES+["following","preceding"]
st=collections.Counter(); bad={}
KEEP=[]
DOCS=f7.DOCS+['<r xmlns="d"><a k="1">t<b/></a><x xmlns=""><a/></x><p:a xmlns:p="u"/></r>']
def feats(e):
    f=[]
    if re.search(r"\[last\(\)\]",e) or re.search(r"\[[^\]]*\b(and|or)\b[^\]]*\]",e) and re.search(r"\b\d+\s+(and|or)|(and|or)\s+\d+\b|last\(\)\s+(and|or)|(and|or)\s+last\(\)",e): f.append("num-in-bool")
    if re.search(r"\[last\(\)\]",e): f.append("[last()]")
    if re.search(r"(not|boolean)\(",e): f.append("not/boolean")
    if "!=" in e and "@" in e: f.append("@!=")
    if re.search(r"@[\w:]+=''",e): f.append("@=''")
    if "text()=" in e: f.append("text()=")
    if re.search(r"(contains|starts-with)\(",e): f.append("strfn")
    return "+".join(f) or "OTHER"
for src in DOCS:
    d=Document(src); KEEP.append(d)
    doc=L.mkdoc(d); nodes=L.allnodes(doc)[1:]
    usermap={"p":"u"} if "xmlns:p" in src else None
    for i in range(N):
        e=f7.gen_expr(rnd)
        if "p:" in e and usermap is None: continue
        ctx=rnd.choice(nodes)
        m=P.parse(e)
        if m[0]!="ok": continue
        if usermap is None: decls=[("", ctx["ns"])] if ctx["kind"]=="tag" else []
        else: decls=list(usermap.items())
        data,_=S.normalize(decls); nsmap=dict(data)
        try: real=[id(x) for x in ctx["real"].xpath(e, namespaces=usermap)]
        except XPathEvaluationError: st["evalerror"]+=1; continue
        except Exception as ex: st["crash:"+type(ex).__name__]+=1; continue
        try: rr=R.evaluate(m[1],ctx,nsmap)
        except KeyError: st["ref-unknown-prefix"]+=1; continue
        if any(x["kind"]=="doc" for x in rr): st["ref-has-doc"]+=1; continue
        st["cmp"]+=1
        if sorted(real)!=sorted(id(x["real"]) for x in rr):
            bad.setdefault(feats(e),[]).append((e,ctx["kind"],len(real),len(rr)))
print(dict(st))
for k,v in sorted(bad.items(), key=lambda kv:-len(kv[1])):
    v.sort(key=lambda x: len(x[0])); print(len(v),k, v[:3])
