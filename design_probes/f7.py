import random, sys, gc, re, collections
gc.disable()
from delb import *
from _delb.nodes import TextNode, TagNode, CommentNode, ProcessingInstructionNode
from _delb.exceptions import XPathParsingError, XPathEvaluationError
from lxml import etree
DOCS=['<r><a k="1">t<b/>u<!--c--><b k="2" j="">v</b><?p q?></a><a/><c><a k="1"><b/></a>w</c></r>',
      '<r xmlns:p="u"><p:a k="x"><b p:k="x"/>t</p:a><a><p:b/>s<b/></a></r>',
      '<r>x<a/>y<a>z</a><!--1--><!--2--><?p1 a?><?p2 b?></r>']
AXES=["child","descendant","descendant-or-self","self","parent","ancestor","ancestor-or-self","following-sibling","preceding-sibling"]
def gen_pred(rnd, depth=0):
    q=rnd.random()
    if q<.2: return str(rnd.randint(1,3))
    if q<.3: return "last()"
    if q<.4: return "position()%s%d"%(rnd.choice(["=","!=",">","<",">=","<="]), rnd.randint(1,3))
    if q<.45: return "position()=last()"
    if q<.6: return "@"+rnd.choice(["k","j","p:k"])
    if q<.75: return "@%s%s'%s'"%(rnd.choice(["k","j"]), rnd.choice(["=","!="]), rnd.choice(["1","2","","x"]))
    if q<.8: return "%s(@%s,'%s')"%(rnd.choice(["contains","starts-with"]), rnd.choice(["k","j"]), rnd.choice(["1","","x"]))
    if q<.85: return "not(%s)"%gen_pred(rnd,depth+1) if depth<2 else "@k"
    if q<.88: return "boolean(%s)"%gen_pred(rnd,depth+1) if depth<2 else "@k"
    if q<.97 and depth<2: return "%s %s %s"%(gen_pred(rnd,depth+1), rnd.choice(["and","or"]), gen_pred(rnd,depth+1))
    return "text()='%s'"%rnd.choice(["t","z",""])
def gen_step(rnd):
    q=rnd.random()
    if q<.08: return "."
    if q<.14: return ".."
    ax=rnd.choice(AXES+["child"]*6)
    t=rnd.choice(["a","b","c","*","*","p:a","p:b","p:*","text()","comment()","processing-instruction()","processing-instruction('p')","node()"])
    s=(ax+"::" if ax!="child" or rnd.random()<.2 else "")+t
    for _ in range(rnd.choice([0,0,0,1,1,2])): s+="[%s]"%gen_pred(rnd)
    return s
def gen_path(rnd):
    s=rnd.choice(["","/","//","",""])
    n=rnd.randint(1,3)
    s+=gen_step(rnd)
    for _ in range(n-1): s+=rnd.choice(["/","/","//"])+gen_step(rnd)
    return s
def gen_expr(rnd):
    s=gen_path(rnd)
    if rnd.random()<.15: s+=" | "+gen_path(rnd)
    return s
def key_delb(n):
    if isinstance(n, TextNode):
        # map to (parent element or preceding element, kind)
        with altered_default_filters():
            p=n.parent; idx=n.index
        return ("text", id(p._etree_obj), idx)
    return ("el", id(n._etree_obj))
def key_lxml(x, doc_root_wrapper):
    if isinstance(x, etree._Element): return ("el", id(x))
    if isinstance(x, str) and hasattr(x,"getparent"):
        par=x.getparent()
        if x.is_text: 
            return ("text", id(par), 0)
        else:
            pp=par.getparent()
            # index among all children nodes of pp in delb terms
            w=doc_root_wrapper(pp)
            with altered_default_filters():
                for i,c in enumerate(w.iterate_children()):
                    if isinstance(c,TextNode):
                        pv=c.fetch_preceding_sibling()
                        if pv is not None and not isinstance(pv,TextNode) and pv._etree_obj is par: return ("text", id(pp), i)
            return ("text?",)
    return ("other", repr(x))
from _delb.nodes import _wrapper_cache
def _main():
    stats=collections.Counter(); bad={}
    
    rnd=random.Random(11)
    N=int(sys.argv[1]) if len(sys.argv)>1 else 4000
    KEEP=[]
    for di,src in enumerate(DOCS):
        d=Document(src); KEEP.append(d)
        with altered_default_filters():
            ctxs=[d.root]+list(d.root.iterate_descendants())
        KEEP.append(ctxs)
        nsmap={"p":"u"} if "xmlns:p" in src else None
        for i in range(N):
            e=gen_expr(rnd)
            if "p:" in e and nsmap is None: continue
            ctx=rnd.choice([c for c in ctxs if not isinstance(c,TextNode)])
            lctx=ctx._etree_obj
            try:
                lres=lctx.xpath(e, namespaces=nsmap)
                if not isinstance(lres,list): continue
                lk=sorted(set(key_lxml(x,_wrapper_cache) for x in lres))
            except Exception as ex:
                stats["lxml-exc"]+=1; continue
            try:
                dres=ctx.xpath(e, namespaces=nsmap)
                dk=sorted(key_delb(n) for n in dres)
                if len(set(dk))!=len(dk): bad.setdefault("DUP",[]).append((e,)); 
            except XPathParsingError as ex:
                stats["delb-parse-reject"]+=1; bad.setdefault("REJECT "+str(ex.message)[:40],[]).append((e,)); continue
            except Exception as ex:
                bad.setdefault("EXC "+type(ex).__name__+" "+str(ex)[:40],[]).append((e,)); continue
            stats["compared"]+=1
            if dk!=lk:
                feats=[]
                if re.search(r"\[last\(\)\]",e): feats.append("[last()]")
                if re.search(r"(not|boolean)\(",e): feats.append("not/boolean")
                if "!=" in e and "@" in e: feats.append("@!=")
                if re.search(r"@\w+=''",e): feats.append("@=''")
                if "node()" in e: feats.append("node()")
                if "text()=" in e: feats.append("text()=")
                if re.search(r"(contains|starts-with)\(",e): feats.append("strfn")
                if not feats: feats=["OTHER"]
                bad.setdefault("DIFF "+"+".join(feats),[]).append((e, type(ctx).__name__, len(dk), len(lk)))
    print(stats)
    for k,v in sorted(bad.items(), key=lambda kv:-len(kv[1])):
        v.sort(key=lambda x: len(x[0])); print(len(v), k, v[:3])
    
if __name__=='__main__': _main()
