"""Generated definitions for C18/C03 (Gen/GenPretty.v): the character-entity tables the serializers
translate text and attribute values with, and `_LengthTrackingWriter.__call__` as a pure function
(preserve_space, offset, data) -> (data written, new offset).

The statement translator below handles exactly the shape of a writer method: straight-line code over the
local `data` and the attribute `self.offset`, `if` (with or without walrus), early `return`, and a final
`super().__call__(data)`.  Everything else raises Unsupported (fail closed).  Expression cases that
py2coq.Tr does not know are added in the subclass `TrW` (so the shared file is left alone)."""
import ast
import os

import py2coq
from py2coq import Unsupported, lit

REPO = os.environ.get("DELB_REPO", "/repo")


def read(rel):
    with open(os.path.join(REPO, rel)) as f:
        return f.read()


def _assignments(src):
    out = {}
    for n in ast.parse(src).body:
        if isinstance(n, ast.AnnAssign) and isinstance(n.target, ast.Name) and n.value is not None:
            out[n.target.id] = n.value
        elif isinstance(n, ast.Assign) and len(n.targets) == 1 and isinstance(n.targets[0], ast.Name):
            out[n.targets[0].id] = n.value
    return out


EXPECT_ATTR = 'str.maketrans({ord(k): f"&{v};" for k, v in CTRL_CHAR_ENTITY_NAME_MAPPING})'
EXPECT_TEXT = 'str.maketrans({ord(k): f"&{v};" for k, v in CTRL_CHAR_ENTITY_NAME_MAPPING if k != \'"\'})'


def _same(e, expected_src):
    return ast.dump(e) == ast.dump(ast.parse(expected_src, mode="eval").body)


def escape_tables(src):
    asg = _assignments(src)
    for n in ("CTRL_CHAR_ENTITY_NAME_MAPPING", "CCE_TABLE_FOR_ATTRIBUTES", "CCE_TABLE_FOR_TEXT"):
        if n not in asg:
            raise Unsupported("nodes.py no longer assigns " + n)
    m = asg["CTRL_CHAR_ENTITY_NAME_MAPPING"]
    if not isinstance(m, (ast.Tuple, ast.List)):
        raise Unsupported("CTRL_CHAR_ENTITY_NAME_MAPPING is not a tuple display")
    pairs = []
    for x in m.elts:
        if not (isinstance(x, ast.Tuple) and len(x.elts) == 2
                and all(isinstance(y, ast.Constant) and isinstance(y.value, str) for y in x.elts)
                and len(x.elts[0].value) == 1):
            raise Unsupported("CTRL_CHAR_ENTITY_NAME_MAPPING: expected pairs (one character, entity name)")
        pairs.append((x.elts[0].value, x.elts[1].value))
    if not _same(asg["CCE_TABLE_FOR_ATTRIBUTES"], EXPECT_ATTR):
        raise Unsupported("CCE_TABLE_FOR_ATTRIBUTES is no longer " + EXPECT_ATTR)
    if not _same(asg["CCE_TABLE_FOR_TEXT"], EXPECT_TEXT):
        raise Unsupported("CCE_TABLE_FOR_TEXT is no longer " + EXPECT_TEXT)

    def tbl(ps):
        return "[" + "; ".join("(%d%%N, %s)" % (ord(k), lit("&" + v + ";")) for k, v in ps) + "]"
    out = "Definition pp_cce_attr : list (N * str) := %s.\n" % tbl(pairs)
    out += "Definition pp_cce_text : list (N * str) := %s.\n" % tbl([p for p in pairs if p[0] != '"'])
    return out


class TrW(py2coq.Tr):
    """py2coq.Tr plus: self.<attr> reads, s[-1], s.lstrip("c"), s.rfind("c"), `not s` for strings"""

    def expr(self, e):
        if isinstance(e, ast.Attribute) and isinstance(e.value, ast.Name) and e.value.id == "self":
            key = "self." + e.attr
            if key not in self.env:
                raise Unsupported("unknown attribute " + key)
            return e.attr, self.env[key]
        if isinstance(e, ast.Subscript) and isinstance(e.slice, ast.UnaryOp) and isinstance(e.slice.op, ast.USub) \
                and isinstance(e.slice.operand, ast.Constant) and e.slice.operand.value == 1:
            s, ts = self.expr(e.value)
            if ts != "str":
                raise Unsupported("index of non-str")
            return "(py_last1 %s)" % s, "str"
        if isinstance(e, ast.Call) and not e.keywords and isinstance(e.func, ast.Attribute) and len(e.args) == 1 \
                and self._onechar(e.args[0]) is not None and e.func.attr in ("lstrip", "rfind"):
            recv, tr = self.expr(e.func.value)
            if tr != "str":
                raise Unsupported("method on non-str")
            c = self._onechar(e.args[0])
            if e.func.attr == "lstrip":
                return "(py_lstrip_char %s %d%%N)" % (recv, c), "str"
            return "(py_rfind1 %s %d%%N (py_len %s))" % (recv, c, recv), "int"
        if isinstance(e, ast.UnaryOp) and isinstance(e.op, ast.Not):
            g, t = self.expr(e.operand)
            if t == "str":
                return "(negb (py_bool_str %s))" % g, "bool"
            if t == "bool":
                return "(negb %s)" % g, "bool"
            raise Unsupported("not on " + t)
        return super().expr(e)


def tr_writer_call(src, qual, coqname):
    f = py2coq.find(ast.parse(src), qual)
    args = [a.arg for a in f.args.args]
    if args != ["self", "data"] or f.args.vararg or f.args.kwarg or f.args.kwonlyargs or f.args.defaults:
        raise Unsupported("signature of " + qual)
    cls = py2coq.find(ast.parse(src), qual.split(".")[0])
    slots = None
    for n in cls.body:
        if isinstance(n, ast.Assign) and len(n.targets) == 1 and isinstance(n.targets[0], ast.Name) \
                and n.targets[0].id == "__slots__":
            slots = ast.literal_eval(n.value)
    if slots is None or set(slots) != {"offset", "preserve_space"}:
        raise Unsupported("%s.__slots__ is no longer ('offset', 'preserve_space')" % qual.split(".")[0])
    tr = TrW({"data": "str", "self.offset": "int", "self.preserve_space": "bool"})

    def done(written):
        return "(%s, offset)" % written

    def block(stmts):
        if not stmts:
            return done("[]")
        s, rest = stmts[0], stmts[1:]
        if isinstance(s, ast.Expr) and isinstance(s.value, ast.Constant):
            return block(rest)
        if isinstance(s, ast.Return) and s.value is None:
            return done("[]")
        if isinstance(s, ast.Assign) and len(s.targets) == 1:
            t = s.targets[0]
            g, ty = tr.expr(s.value)
            if isinstance(t, ast.Name) and t.id == "data" and ty == "str":
                return "let data := %s in\n  %s" % (g, block(rest))
            if isinstance(t, ast.Attribute) and isinstance(t.value, ast.Name) and t.value.id == "self" \
                    and t.attr == "offset" and ty == "int":
                return "let offset := %s in\n  %s" % (g, block(rest))
            raise Unsupported("assignment target " + ast.dump(t))
        if isinstance(s, ast.AugAssign) and isinstance(s.op, ast.Add) and isinstance(s.target, ast.Attribute) \
                and isinstance(s.target.value, ast.Name) and s.target.value.id == "self" and s.target.attr == "offset":
            g, ty = tr.expr(s.value)
            if ty != "int":
                raise Unsupported("offset += non-int")
            return "let offset := (offset + %s)%%Z in\n  %s" % (g, block(rest))
        if isinstance(s, ast.If):
            test = s.test
            pre = ""
            saved = dict(tr.env)
            if isinstance(test, ast.Compare) and isinstance(test.left, ast.NamedExpr):
                ne = test.left
                g, ty = tr.expr(ne.value)
                tr.env[ne.target.id] = ty
                pre = "let %s := %s in\n  " % (ne.target.id, g)
                test = ast.Compare(left=ast.Name(id=ne.target.id, ctx=ast.Load()), ops=test.ops,
                                   comparators=test.comparators)
            if any(isinstance(x, ast.NamedExpr) for x in ast.walk(test)):
                raise Unsupported("walrus form")
            g, ty = tr.expr(test)
            if ty == "str":
                g, ty = "(py_bool_str %s)" % g, "bool"
            if ty != "bool":
                raise Unsupported("condition type")
            # the continuation is duplicated into both branches (the function is small)
            a = block(list(s.body) + list(rest))
            b = block(list(s.orelse) + list(rest))
            tr.env = saved
            return "%s(if %s then %s else %s)" % (pre, g, a, b)
        if isinstance(s, ast.Expr) and isinstance(s.value, ast.Call) and not rest:
            c = s.value
            if isinstance(c.func, ast.Attribute) and c.func.attr == "__call__" and isinstance(c.func.value, ast.Call) \
                    and isinstance(c.func.value.func, ast.Name) and c.func.value.func.id == "super" \
                    and not c.func.value.args and len(c.args) == 1 and not c.keywords:
                g, ty = tr.expr(c.args[0])
                if ty != "str":
                    raise Unsupported("argument of super().__call__")
                return done(g)
        raise Unsupported(ast.dump(s)[:300])

    body = block(list(f.body))
    return ("Definition %s (preserve_space : bool) (offset : Z) (data : str) : str * Z :=\n  %s." % (coqname, body))


def check_base_writer(src):
    """_SerializationWriter.__call__ must still be `self.buffer.write(data)`"""
    f = py2coq.find(ast.parse(src), "_SerializationWriter.__call__")
    body = [s for s in f.body if not (isinstance(s, ast.Expr) and isinstance(s.value, ast.Constant))]
    if len(body) != 1 or ast.dump(body[0]) != ast.dump(ast.parse("self.buffer.write(data)").body[0]):
        raise Unsupported("_SerializationWriter.__call__ is no longer self.buffer.write(data)")


def gen_pretty():
    src = read("_delb/nodes.py")
    check_base_writer(src)
    out = "From Delb.Base Require Import PyStr PyStrW.\n"
    out += escape_tables(src)
    out += "Open Scope Z_scope.\n"
    out += tr_writer_call(src, "_LengthTrackingWriter.__call__", "writer_call") + "\n"
    out += "Close Scope Z_scope.\n"
    return out


GENERATORS = {
    "GenPretty.v": ("_delb/nodes.py CTRL_CHAR_ENTITY_NAME_MAPPING, CCE_TABLE_FOR_ATTRIBUTES, CCE_TABLE_FOR_TEXT, "
                    "_LengthTrackingWriter.__call__", gen_pretty),
}
