"""GenValidators.v: CommentNode._validate_content and ProcessingInstructionNode._validate_target_value, regenerated from
the source.  Both are sequences of `if <condition>: raise ValueError(...)`; the generated functions return true when
the value is *refused*.  Anything else in their bodies: Unsupported (fail closed)."""
import ast
import os

import py2coq
from py2coq import Unsupported

REPO = os.environ.get("DELB_REPO", "/repo")


def refusal(src, qual, coqname, env):
    fn = py2coq.find(ast.parse(src), qual)
    if len(fn.args.args) != 1 or fn.args.vararg or fn.args.kwarg or fn.args.kwonlyargs:
        raise Unsupported("signature of " + qual)
    arg = fn.args.args[0].arg
    tr = py2coq.Tr(dict(env, **{arg: "str"}))
    conds = []
    for st in fn.body:
        if isinstance(st, ast.Expr) and isinstance(st.value, ast.Constant) and isinstance(st.value.value, str):
            continue  # docstring
        ok = (isinstance(st, ast.If) and not st.orelse and len(st.body) == 1 and isinstance(st.body[0], ast.Raise)
              and isinstance(st.body[0].exc, ast.Call) and isinstance(st.body[0].exc.func, ast.Name)
              and st.body[0].exc.func.id == "ValueError")
        if not ok:
            raise Unsupported("statement in %s: %s" % (qual, ast.dump(st)[:200]))
        g, t = tr.expr(st.test)
        if t != "bool":
            raise Unsupported("condition type in " + qual)
        conds.append(g)
    if not conds:
        raise Unsupported(qual + " no longer refuses anything")
    body = "Definition %s (%s : str) : bool :=\n  (%s)%%bool.\n" % (coqname, arg, "\n   || ".join(conds))
    return body, getattr(tr, "lower_targets", set())


def gen_validators():
    with open(os.path.join(REPO, "_delb/nodes.py")) as f:
        src = f.read()
    c_body, _ = refusal(src, "CommentNode._validate_content", "comment_content_refused", {})
    p_body, targets = refusal(src, "ProcessingInstructionNode._validate_target_value", "pi_target_refused",
                              {"lower_pre": "table"})
    # the lowering table, from the running interpreter
    pre = []
    for c in range(0x110000):
        low = chr(c).lower()
        if len(low) == 1:
            if low in targets and low != chr(c):
                pre.append((c, ord(low)))
        elif any(ch in targets for ch in low):
            raise Unsupported("a multi-character lowering contains a character of the compared literal")
    for ch in targets:
        if ch.lower() != ch:
            raise Unsupported("literal is not lower case")
    out = "From Delb.Base Require Import PyStr.\n"
    out += "Definition lower_pre : list (N * N) := [%s].\n" % "; ".join("(%d%%N, %d%%N)" % p for p in pre)
    return out + c_body + p_body


GENERATORS = {"GenValidators.v": ("_delb/nodes.py CommentNode._validate_content, ProcessingInstructionNode._validate_target_value "
                                  "and the running interpreter (str.lower)", gen_validators)}
