"""C04: the constants and the lock of _WrapperCache, from /repo's AST.

Gen/GenGC.v holds the reference-count baselines the eviction rule compares against (`getrefcount(node) > 4 + ...`,
`getrefcount(node.__document__) == 4`, `getrefcount(current) > 3 + ...` in the three appendee loops,
`getrefcount(tail_node|data_node) > 3 + ...`) and the list of functions that hold the cache lock
(`with _wrapper_cache:`).  Misc/GC.v takes its thresholds from here, so a changed constant changes the subject of
the theorems and breaks a lemma.

Fail closed (py2coq.Unsupported) when: a getrefcount comparison in __gc_callback__ has a shape other than the five
known ones (compared after replacing integer literals by a placeholder), their number changes, the appendee loops
(or the two head tests) no longer use one common constant, the callback no longer starts with
`if phase != "stop" or self.locks: return`, __enter__/__exit__ are no longer `locks += 1` / `locks -= 1`, or `locks`
is touched outside the class.
"""
import ast
import glob
import os
import re

from py2coq import Unsupported

REPO = os.environ.get("DELB_REPO", "/repo")

SHAPES = {
    "node": "getrefcount(node) > (4 + isinstance(node, TagNode) + (getattr(node, '__document__', None) is not None "
            "and getrefcount(node.__document__) == 4))",
    "doc": "getrefcount(node.__document__) == 4",
    "app": "getrefcount(current) > 3 + (_next is not None)",
    "tail": "getrefcount(tail_node) > 3 + (tail_node._appended_text_node is not None)",
    "data": "getrefcount(data_node) > 3 + (data_node._appended_text_node is not None)",
}
GUARD = 'if phase != "stop" or self.locks:\n    return'
ENTER = "self.locks += 1\nreturn self"
EXIT = "self.locks -= 1\nreturn False"


def dump(n):
    return ast.dump(n, annotate_fields=True, include_attributes=False)


def norm(n):
    return re.sub(r"Constant\(value=\d+\)", "Constant(value=K)", dump(n))


def first_int(n):
    for x in ast.walk(n):
        if isinstance(x, ast.Constant) and isinstance(x.value, int) and not isinstance(x.value, bool):
            return x.value
    raise Unsupported("no integer constant in " + ast.unparse(n))


def body_wo_doc(fn):
    b = list(fn.body)
    if b and isinstance(b[0], ast.Expr) and isinstance(b[0].value, ast.Constant) and isinstance(b[0].value.value, str):
        b = b[1:]
    return b


def gen_gc():
    path = os.path.join(REPO, "_delb", "nodes.py")
    with open(path) as f:
        tree = ast.parse(f.read())
    cls = [n for n in tree.body if isinstance(n, ast.ClassDef) and n.name == "_WrapperCache"]
    if len(cls) != 1:
        raise Unsupported("class _WrapperCache not found exactly once")
    meth = {n.name: n for n in cls[0].body if isinstance(n, ast.FunctionDef)}
    for name, ref in (("__enter__", ENTER), ("__exit__", EXIT)):
        if name not in meth or [dump(x) for x in body_wo_doc(meth[name])] != [dump(x) for x in ast.parse(ref).body]:
            raise Unsupported("_WrapperCache.%s is no longer `%s`" % (name, ref.replace("\n", "; ")))
    cb = meth.get("__gc_callback__")
    if cb is None:
        raise Unsupported("_WrapperCache.__gc_callback__ not found")
    body = body_wo_doc(cb)
    if not body or dump(body[0]) != dump(ast.parse(GUARD).body[0]):
        raise Unsupported("__gc_callback__ no longer starts with `if phase != \"stop\" or self.locks: return`")
    shapes = {k: norm(ast.parse(v, mode="eval").body) for k, v in SHAPES.items()}
    found = {k: [] for k in SHAPES}
    for n in ast.walk(cb):
        if isinstance(n, ast.Compare) and any(isinstance(x, ast.Call) and isinstance(x.func, ast.Name)
                                              and x.func.id == "getrefcount" for x in [n.left]):
            k = [k for k, s in shapes.items() if s == norm(n)]
            if not k:
                raise Unsupported("unknown getrefcount comparison in __gc_callback__: " + ast.unparse(n))
            found[k[0]].append(n)
    want = {"node": 1, "doc": 1, "app": 3, "tail": 1, "data": 1}
    got = {k: len(v) for k, v in found.items()}
    if got != want:
        raise Unsupported("getrefcount comparisons in __gc_callback__: expected %r, found %r" % (want, got))
    node_base = first_int(found["node"][0].comparators[0])
    doc_base = first_int(found["doc"][0].comparators[0])
    app = {first_int(n.comparators[0]) for n in found["app"]}
    head = {first_int(n.comparators[0]) for n in found["tail"] + found["data"]}
    if len(app) != 1 or len(head) != 1:
        raise Unsupported("the appendee loops / head tests no longer share one constant: %r %r" % (app, head))
    # the lock
    takers = []
    for p in sorted(glob.glob(os.path.join(REPO, "_delb", "**", "*.py"), recursive=True)
                    + glob.glob(os.path.join(REPO, "delb", "**", "*.py"), recursive=True)):
        rel = os.path.relpath(p, REPO)
        with open(p) as f:
            t = ast.parse(f.read())

        def visit(node, qual, in_cache_class):
            for ch in ast.iter_child_nodes(node):
                if isinstance(ch, ast.ClassDef):
                    visit(ch, qual + [ch.name], in_cache_class or ch.name == "_WrapperCache")
                elif isinstance(ch, (ast.FunctionDef, ast.AsyncFunctionDef)):
                    name = ".".join(qual + [ch.name])
                    if any(isinstance(x, ast.With) and any(isinstance(i.context_expr, ast.Name) and i.context_expr.id == "_wrapper_cache"
                                                             for i in x.items) for x in ast.walk(ch)):
                        takers.append(name)
                    visit(ch, qual + [ch.name], in_cache_class)
                else:
                    if isinstance(ch, ast.Attribute) and ch.attr == "locks" and not in_cache_class:
                        raise Unsupported("%s:%d: _wrapper_cache.locks touched outside _WrapperCache" % (rel, ch.lineno))
                    visit(ch, qual, in_cache_class)
        visit(t, [], False)
    out = "From Coq Require Import List String.\nImport ListNotations.\nOpen Scope string_scope.\n"
    out += "Definition node_base : nat := %d.   (* getrefcount(node) > node_base + ... *)\n" % node_base
    out += "Definition doc_base : nat := %d.    (* getrefcount(node.__document__) == doc_base *)\n" % doc_base
    out += "Definition app_base : nat := %d.    (* getrefcount(current) > app_base + (_next is not None), three loops *)\n" % app.pop()
    out += "Definition head_base : nat := %d.   (* getrefcount(tail_node|data_node) > head_base + (has appendee) *)\n" % head.pop()
    out += "(* functions that hold the cache lock: `with _wrapper_cache:` *)\n"
    out += "Definition lock_takers : list string := [%s].\n" % "; ".join('"%s"' % x for x in takers)
    return out


GENERATORS = {
    "GenGC.v": ("_delb/nodes.py _WrapperCache (__gc_callback__ thresholds, __enter__/__exit__) and every `with _wrapper_cache:`", gen_gc),
}
