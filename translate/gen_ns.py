"""Generated definitions for C13/C02: namespace tables, Namespaces.__validate_declaration,
Serializer._new_namespace_declaration (with its loop bound), the character-entity tables."""
import ast
import os

import py2coq
from py2coq import Unsupported, lit

REPO = os.environ.get("DELB_REPO", "/repo")


def read(rel):
    with open(os.path.join(REPO, rel)) as f:
        return f.read()


def pairs(tbl):
    return "[" + ";\n  ".join("(%s, %s)" % (lit(k), v) for k, v in tbl) + "]"


def gen_ns():
    names = read("_delb/names.py")
    nodes = read("_delb/nodes.py")
    asg = py2coq.module_assignments(names)
    for n in ("XML_NAMESPACE", "XMLNS_NAMESPACE", "COMMON_NAMESPACES", "GLOBAL_NAMESPACES", "GLOBAL_PREFIXES"):
        if n not in asg:
            raise Unsupported("names.py no longer assigns " + n)
    consts = {"XML_NAMESPACE": "xml_ns", "XMLNS_NAMESPACE": "xmlns_ns"}
    common = py2coq.str_mapping_table(asg["COMMON_NAMESPACES"], {})
    glob = py2coq.str_mapping_table(asg["GLOBAL_NAMESPACES"], consts)
    gp = asg["GLOBAL_PREFIXES"]
    if not (isinstance(gp, ast.Call) and isinstance(gp.func, ast.Name) and gp.func.id == "tuple" and len(gp.args) == 1
            and isinstance(gp.args[0], ast.Name) and gp.args[0].id == "GLOBAL_NAMESPACES"):
        raise Unsupported("GLOBAL_PREFIXES is no longer tuple(GLOBAL_NAMESPACES)")
    out = ["From Delb.Base Require Import PyStr PyDict.", "From Delb.Gen Require Import GenNames."]
    out.append("Definition global_namespaces : list (str * str) :=\n  %s." % pairs(glob))
    out.append("Definition global_prefixes : list str := dict_keys global_namespaces.")
    out.append("Definition common_namespaces : list (str * str) :=\n  %s." % pairs(common))
    out.append(py2coq.tr_guard_function(
        names, "Namespaces.__validate_declaration", "validate_declaration", ["optstr", "str", "strs"],
        tables={"GLOBAL_PREFIXES": "global_prefixes"}, consts=consts, exns={"ValueError": "Rejected ValueError"}))
    # the serializer must still take its exclusion list and its tables from these names
    # `x in self._namespaces` is Namespaces.__contains__: membership among the prefixes of the normalised mapping
    import re as _re
    if not _re.search(r"def __contains__\(self, item[^)]*\):\s*\n\s*return item in self\.__data\b", names):
        raise Unsupported("Namespaces.__contains__ is no longer `item in self.__data`")
    loop = py2coq.tr_fresh_name_loop(nodes, "Serializer._new_namespace_declaration", "new_namespace_declaration",
                                     "_prefixes", "_namespaces")
    if "new_namespace_declaration_name2" not in loop:
        raise Unsupported("Serializer._new_namespace_declaration no longer consults the caller's mapping: the model and "
                          "the proofs of C13/C02 are written for the loop that skips prefixes the caller uses")
    out.append(loop)
    nasg = py2coq.module_assignments(nodes)
    for n in ("CTRL_CHAR_ENTITY_NAME_MAPPING", "CCE_TABLE_FOR_ATTRIBUTES", "CCE_TABLE_FOR_TEXT"):
        if n not in nasg:
            raise Unsupported("nodes.py no longer assigns " + n)
    cc = py2coq.pair_table(nasg["CTRL_CHAR_ENTITY_NAME_MAPPING"])
    if any(len(k) != 1 for k, _ in cc):
        raise Unsupported("CTRL_CHAR_ENTITY_NAME_MAPPING keys must be single characters")
    out.append("Definition ctrl_char_entity_name_mapping : list (char * str) :=\n  [%s]."
               % "; ".join("(%d%%N, %s)" % (ord(k), lit(v)) for k, v in cc))
    out.append("Definition cce_table_for_attributes : list (char * str) :=\n  %s."
               % py2coq.tr_maketrans_comprehension(nasg["CCE_TABLE_FOR_ATTRIBUTES"], "CTRL_CHAR_ENTITY_NAME_MAPPING",
                                                   "ctrl_char_entity_name_mapping"))
    out.append("Definition cce_table_for_text : list (char * str) :=\n  %s."
               % py2coq.tr_maketrans_comprehension(nasg["CCE_TABLE_FOR_TEXT"], "CTRL_CHAR_ENTITY_NAME_MAPPING",
                                                   "ctrl_char_entity_name_mapping"))
    return "\n".join(out) + "\n"


def _refusal(src, qual, coqname, argnames, consts):
    """a validator whose body is a sequence of `if <condition>: raise ValueError(...)` -> Gallina bool function that is
    true when the value is refused.  Module constants (consts: name -> string value) are inlined;
    `x.startswith((a, b, ...))` is the disjunction of the single tests.  Anything else: Unsupported."""
    fn = py2coq.find(ast.parse(src), qual)
    args = [a.arg for a in fn.args.args if a.arg not in ("self", "cls")]
    if args != argnames or fn.args.vararg or fn.args.kwarg or fn.args.kwonlyargs or fn.args.defaults:
        raise Unsupported("signature of " + qual)

    class Rewrite(ast.NodeTransformer):
        def visit_Name(self, n):
            if n.id in consts and n.id not in args:
                return ast.Constant(value=consts[n.id])
            return n

        def visit_Call(self, n):
            self.generic_visit(n)
            if (isinstance(n.func, ast.Attribute) and n.func.attr == "startswith" and len(n.args) == 1
                    and isinstance(n.args[0], ast.Tuple) and n.args[0].elts and not n.keywords):
                return ast.BoolOp(op=ast.Or(), values=[ast.Call(func=n.func, args=[e], keywords=[]) for e in n.args[0].elts])
            return n
    tr = py2coq.Tr({a: "str" for a in args})
    conds = []
    for st in fn.body:
        if isinstance(st, ast.Expr) and isinstance(st.value, ast.Constant):
            continue
        ok = (isinstance(st, ast.If) and not st.orelse and len(st.body) == 1 and isinstance(st.body[0], ast.Raise)
              and isinstance(st.body[0].exc, ast.Call) and isinstance(st.body[0].exc.func, ast.Name)
              and st.body[0].exc.func.id == "ValueError")
        if not ok:
            raise Unsupported("statement in %s: %s" % (qual, ast.dump(st)[:200]))
        g, t = tr.expr(Rewrite().visit(st.test))
        if t != "bool":
            raise Unsupported("condition type in " + qual)
        conds.append(g)
    if not conds:
        raise Unsupported(qual + " no longer refuses anything")
    return "Definition %s %s : bool :=\n  (%s)%%bool." % (coqname, " ".join("(%s : str)" % a for a in args), "\n   || ".join(conds))


def _called_in(src, qual, callee):
    """the validator must still be called where the values enter"""
    fn = py2coq.find(ast.parse(src), qual)
    return any(isinstance(n, ast.Call) and isinstance(n.func, ast.Attribute) and n.func.attr == callee for n in ast.walk(fn))


def gen_ns_validators():
    nodes = read("_delb/nodes.py")
    names = read("_delb/names.py")
    asg = py2coq.module_assignments(names)
    consts = {k: asg[k].value for k in ("XML_NAMESPACE", "XMLNS_NAMESPACE")
              if k in asg and isinstance(asg[k], ast.Constant) and isinstance(asg[k].value, str)}
    if len(consts) != 2:
        raise Unsupported("XML_NAMESPACE / XMLNS_NAMESPACE are no longer string constants")
    out = ["From Delb.Base Require Import PyStr."]
    out.append(_refusal(nodes, "TagAttributes._validate_name", "attribute_name_refused", ["namespace", "name"], consts))
    out.append(_refusal(nodes, "ProcessingInstructionNode._validate_content", "pi_content_refused", ["value"], consts))
    if not _called_in(nodes, "TagAttributes.__setitem__", "_validate_name"):
        raise Unsupported("TagAttributes.__setitem__ no longer calls _validate_name")
    if not _called_in(nodes, "new_processing_instruction_node", "_validate_content"):
        raise Unsupported("new_processing_instruction_node no longer calls ProcessingInstructionNode._validate_content")
    if not _called_in(nodes, "ProcessingInstructionNode.content", "_validate_content"):
        pass  # the property getter is found first; the setter is checked by the correspondence of the check
    return "\n".join(out) + "\n"


GENERATORS = {
    "GenNsValidators.v": ("_delb/nodes.py TagAttributes._validate_name, ProcessingInstructionNode._validate_content "
                          "(and that TagAttributes.__setitem__ / new_processing_instruction_node call them)", gen_ns_validators),
    "GenNs.v": ("_delb/names.py GLOBAL_NAMESPACES, GLOBAL_PREFIXES, COMMON_NAMESPACES, Namespaces.__validate_declaration; "
                "_delb/nodes.py Serializer._new_namespace_declaration, CTRL_CHAR_ENTITY_NAME_MAPPING, CCE_TABLE_FOR_*", gen_ns),
}
