"""Generated definitions for C13/C02: namespace tables, Namespaces.__validate_declaration,
Serializer._new_namespace_declaration (with its loop bound), the character-entity tables."""
import ast
import os

import py2coq
from py2coq import Unsupported, lit

REPO = os.environ.get("DELB_REPO", "/repo")


def read(rel):
    with open(os.path.join(REPO, rel)) as f:
        return f.read()


def pairs(tbl):
    return "[" + ";\n  ".join("(%s, %s)" % (lit(k), v) for k, v in tbl) + "]"


def gen_ns():
    names = read("_delb/names.py")
    nodes = read("_delb/nodes.py")
    asg = py2coq.module_assignments(names)
    for n in ("XML_NAMESPACE", "XMLNS_NAMESPACE", "COMMON_NAMESPACES", "GLOBAL_NAMESPACES", "GLOBAL_PREFIXES"):
        if n not in asg:
            raise Unsupported("names.py no longer assigns " + n)
    consts = {"XML_NAMESPACE": "xml_ns", "XMLNS_NAMESPACE": "xmlns_ns"}
    common = py2coq.str_mapping_table(asg["COMMON_NAMESPACES"], {})
    glob = py2coq.str_mapping_table(asg["GLOBAL_NAMESPACES"], consts)
    gp = asg["GLOBAL_PREFIXES"]
    if not (isinstance(gp, ast.Call) and isinstance(gp.func, ast.Name) and gp.func.id == "tuple" and len(gp.args) == 1
            and isinstance(gp.args[0], ast.Name) and gp.args[0].id == "GLOBAL_NAMESPACES"):
        raise Unsupported("GLOBAL_PREFIXES is no longer tuple(GLOBAL_NAMESPACES)")
    out = ["From Delb.Base Require Import PyStr PyDict.", "From Delb.Gen Require Import GenNames."]
    out.append("Definition global_namespaces : list (str * str) :=\n  %s." % pairs(glob))
    out.append("Definition global_prefixes : list str := dict_keys global_namespaces.")
    out.append("Definition common_namespaces : list (str * str) :=\n  %s." % pairs(common))
    out.append(py2coq.tr_guard_function(
        names, "Namespaces.__validate_declaration", "validate_declaration", ["optstr", "str", "strs"],
        tables={"GLOBAL_PREFIXES": "global_prefixes"}, consts=consts, exns={"ValueError": "Rejected ValueError"}))
    # the serializer must still take its exclusion list and its tables from these names
    # `x in self._namespaces` is Namespaces.__contains__: membership among the prefixes of the normalised mapping
    import re as _re
    if not _re.search(r"def __contains__\(self, item[^)]*\):\s*\n\s*return item in self\.__data\b", names):
        raise Unsupported("Namespaces.__contains__ is no longer `item in self.__data`")
    loop = py2coq.tr_fresh_name_loop(nodes, "Serializer._new_namespace_declaration", "new_namespace_declaration",
                                     "_prefixes", "_namespaces")
    if "new_namespace_declaration_name2" not in loop:
        raise Unsupported("Serializer._new_namespace_declaration no longer consults the caller's mapping: the model and "
                          "the proofs of C13/C02 are written for the loop that skips prefixes the caller uses")
    out.append(loop)
    nasg = py2coq.module_assignments(nodes)
    for n in ("CTRL_CHAR_ENTITY_NAME_MAPPING", "CCE_TABLE_FOR_ATTRIBUTES", "CCE_TABLE_FOR_TEXT"):
        if n not in nasg:
            raise Unsupported("nodes.py no longer assigns " + n)
    cc = py2coq.pair_table(nasg["CTRL_CHAR_ENTITY_NAME_MAPPING"])
    if any(len(k) != 1 for k, _ in cc):
        raise Unsupported("CTRL_CHAR_ENTITY_NAME_MAPPING keys must be single characters")
    out.append("Definition ctrl_char_entity_name_mapping : list (char * str) :=\n  [%s]."
               % "; ".join("(%d%%N, %s)" % (ord(k), lit(v)) for k, v in cc))
    out.append("Definition cce_table_for_attributes : list (char * str) :=\n  %s."
               % py2coq.tr_maketrans_comprehension(nasg["CCE_TABLE_FOR_ATTRIBUTES"], "CTRL_CHAR_ENTITY_NAME_MAPPING",
                                                   "ctrl_char_entity_name_mapping"))
    out.append("Definition cce_table_for_text : list (char * str) :=\n  %s."
               % py2coq.tr_maketrans_comprehension(nasg["CCE_TABLE_FOR_TEXT"], "CTRL_CHAR_ENTITY_NAME_MAPPING",
                                                   "ctrl_char_entity_name_mapping"))
    return "\n".join(out) + "\n"


GENERATORS = {
    "GenNs.v": ("_delb/names.py GLOBAL_NAMESPACES, GLOBAL_PREFIXES, COMMON_NAMESPACES, Namespaces.__validate_declaration; "
                "_delb/nodes.py Serializer._new_namespace_declaration, CTRL_CHAR_ENTITY_NAME_MAPPING, CCE_TABLE_FOR_*", gen_ns),
}
