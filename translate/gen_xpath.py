"""Generated definitions for the XPath front end (C16): Gen/GenXPath.v.

Everything here is read from /repo's current tree (source text through `ast`, and -- for the two plugin/
attribute registries and the Unicode digit table -- from the running interpreter with /repo imported):

  tkind                 the TokenType enum (an Inductive: a renamed/removed member breaks Tok.v)
  name_start_ranges / name_extra_ranges     parsed from tokenizer.name_start_characters / name_characters,
                        and re-validated against `re` on every code point
  digit_ranges          Unicode Nd (= regex \\d) as runs whose first member is the digit zero; int() of a
                        digit is (c - lo) mod 10 (checked against unicodedata.decimal and int())
  int_max_str_digits    sys.get_int_max_str_digits(): int() of a longer digit string raises ValueError
  tok_alternatives      the ordered alternation of grab_token: [(group name, pattern text)], class bodies of
                        the NAME pattern abbreviated (they are name_*_ranges)
  complementing         COMPLEMENTING_TOKEN_TYPES
  axis_expansions       the replacement lists of parser.expand_axes
  operator_order        the tuple parse_evaluation_expression iterates over; operators_keys = OPERATORS keys
  node_type_test_mapping   NODE_TYPE_TEST_MAPPING
  xpath_functions       registered functions: name, number of parameters, last parameter is *args
  axis_names            the members of Axis._names (the names Axis(name) accepts) with generator.__name__
  msg_*                 the message of every `raise XPathParsingError/XPathUnsupportedStandardFeature`,
                        f-strings as functions of their holes (hole texts listed in msg_holes)
  xpe_render            XPathParsingError.__str__ (shape-matched against a template, constants extracted)
  cached_properties     the functools.cached_property members of the AST node classes (ast.py); the generator
                        fails if any method but __init__ assigns to an attribute of self
  audit                 per function: how many subscripts, dict lookups, slices, asserts, .pop(), int(),
                        getattr, raise <class>, try handlers it contains.  Parse.v states what its model
                        accounts for (`model_audit`) and ParseFacts.v proves `audit = model_audit`.

Fail closed: any shape this file does not recognise raises Unsupported.
"""
import ast
import hashlib
import os
import re
import sys

import py2coq
from py2coq import Unsupported, lit

REPO = os.environ.get("DELB_REPO", "/repo")


def read(rel):
    with open(os.path.join(REPO, rel)) as f:
        return f.read()


def clit(s):
    """string literal with the text in a comment"""
    shown = s.replace("*)", "* )").replace("(*", "( *").replace("\n", "\\n").replace('"', "''")
    return "(%s (* %s *))" % (lit(s) if s else "[]", shown if len(shown) < 90 else shown[:87] + "...")


def ident(s):
    return re.sub(r"[^A-Za-z0-9_]", "_", s)


# ------------------------------------------------------------------------------------------------
# character classes

def parse_class_body(body):
    """a regex character-class body made of literal chars, \\uXXXX, \\UXXXXXXXX, \\. and a-b ranges"""
    items = []
    i = 0
    while i < len(body):
        c = body[i]
        if c == "\\":
            if body[i + 1] == "u":
                items.append(int(body[i + 2:i + 6], 16))
                i += 6
            elif body[i + 1] == "U":
                items.append(int(body[i + 2:i + 10], 16))
                i += 10
            elif body[i + 1] in ".-\\]^":
                items.append(ord(body[i + 1]))
                i += 2
            else:
                raise Unsupported("character class escape \\%s" % body[i + 1])
        elif c == "-":
            items.append("-")
            i += 1
        elif c in "[]^":
            raise Unsupported("character class syntax %r" % c)
        else:
            items.append(ord(c))
            i += 1
    ranges = []
    j = 0
    while j < len(items):
        if items[j] == "-":
            if j == len(items) - 1 or j == 0:
                ranges.append((45, 45))
                j += 1
                continue
            raise Unsupported("dangling '-' inside a character class")
        if j + 2 < len(items) and items[j + 1] == "-" and items[j + 2] != "-":
            ranges.append((items[j], items[j + 2]))
            j += 3
        else:
            ranges.append((items[j], items[j]))
            j += 1
    return ranges


def validate_ranges(body, ranges):
    rx = re.compile("[%s]" % body, re.UNICODE)
    member = bytearray(0x110000)
    for a, b in ranges:
        for c in range(a, b + 1):
            member[c] = 1
    for c in range(0x110000):
        if bool(rx.fullmatch(chr(c))) != bool(member[c]):
            raise Unsupported("character class [%s...] is not the union of its parsed ranges at U+%04X" % (body[:20], c))


def cranges(rs):
    return "[" + "; ".join("(%d, %d)" % r for r in rs) + "]%N"


# ------------------------------------------------------------------------------------------------
# the alternation

EXPECTED_STRING_PATTERN = r"""(?P<stringDelimiter>["'])(\\.|[^\\])*?(?P=stringDelimiter)"""


def split_alternatives(pattern):
    if not (pattern.startswith("(") and pattern.endswith(")")):
        raise Unsupported("grab_token pattern is not one parenthesised alternation")
    inner = pattern[1:-1]
    parts, depth, cur, i, in_class = [], 0, "", 0, False
    while i < len(inner):
        c = inner[i]
        if c == "\\":
            cur += inner[i:i + 2]
            i += 2
            continue
        if in_class:
            if c == "]":
                in_class = False
        elif c == "[":
            in_class = True
            if inner[i + 1] == "]":       # a leading ] is literal
                cur += "[]"
                i += 2
                continue
        elif c == "(":
            depth += 1
        elif c == ")":
            depth -= 1
            if depth < 0:
                raise Unsupported("unbalanced grab_token pattern")
        elif c == "|" and depth == 0:
            parts.append(cur)
            cur = ""
            i += 1
            continue
        cur += c
        i += 1
    parts.append(cur)
    out = []
    for p in parts:
        m = re.fullmatch(r"\(\?P<([A-Za-z_]+)>(.*)\)", p, re.S)
        if not m:
            raise Unsupported("alternative is not a named group: %r" % p[:40])
        out.append((m.group(1), m.group(2)))
    return out


# ------------------------------------------------------------------------------------------------
# source-level tables

def top_assign(tree, name):
    for n in tree.body:
        if isinstance(n, ast.AnnAssign) and isinstance(n.target, ast.Name) and n.target.id == name:
            return n.value
        if isinstance(n, ast.Assign) and len(n.targets) == 1 and isinstance(n.targets[0], ast.Name) \
                and n.targets[0].id == name:
            return n.value
    raise Unsupported("no top-level assignment of " + name)


def tt_name(e):
    """TokenType.X -> 'X'"""
    if isinstance(e, ast.Attribute) and isinstance(e.value, ast.Name) and e.value.id == "TokenType":
        return e.attr
    raise Unsupported("expected TokenType.<member>: " + ast.dump(e)[:80])


def find_func(tree, qual):
    parts = qual.split(".")
    body = tree.body
    node = None
    for p in parts:
        node = None
        for n in body:
            if isinstance(n, (ast.FunctionDef, ast.ClassDef)) and n.name == p:
                node = n
                break
        if node is None:
            raise Unsupported("no definition of " + qual)
        body = node.body
    if not isinstance(node, ast.FunctionDef):
        raise Unsupported(qual + " is not a function")
    return node


def expansions(parser_tree):
    f = find_func(parser_tree, "expand_axes")
    out = []
    for n in ast.walk(f):
        if isinstance(n, ast.If) and isinstance(n.test, ast.Compare) and len(n.test.ops) == 1 \
                and isinstance(n.test.ops[0], ast.Is) and isinstance(n.test.comparators[0], ast.Attribute) \
                and isinstance(n.test.left, ast.Attribute) and n.test.left.attr == "type":
            kind = tt_name(n.test.comparators[0])
            if len(n.body) != 2 or not isinstance(n.body[1], ast.Continue):
                raise Unsupported("expand_axes: branch for %s is not `result.extend(...); continue`" % kind)
            call = n.body[0].value if isinstance(n.body[0], ast.Expr) else None
            if not (isinstance(call, ast.Call) and isinstance(call.func, ast.Attribute) and call.func.attr == "extend"
                    and len(call.args) == 1 and isinstance(call.args[0], (ast.Tuple, ast.List))):
                raise Unsupported("expand_axes: branch for %s does not extend by a literal sequence" % kind)
            toks = []
            for t in call.args[0].elts:
                if not (isinstance(t, ast.Call) and isinstance(t.func, ast.Name) and t.func.id == "Token"
                        and len(t.args) == 3 and not t.keywords
                        and isinstance(t.args[0], ast.Attribute) and t.args[0].attr == "position"
                        and isinstance(t.args[1], ast.Constant) and isinstance(t.args[1].value, str)):
                    raise Unsupported("expand_axes: replacement token of unexpected shape")
                toks.append((t.args[1].value, tt_name(t.args[2])))
            out.append((kind, toks))
    # the loop must be: for token in tokens: if isinstance(token, Token): <the ifs> ; result.append(token)
    loop = [n for n in f.body if isinstance(n, ast.For)]
    if len(loop) != 1 or len(loop[0].body) != 2 or not isinstance(loop[0].body[0], ast.If) \
            or len(loop[0].body[0].body) != len(out) or loop[0].body[0].orelse:
        raise Unsupported("expand_axes: loop shape changed")
    return out


def operator_order(parser_tree):
    f = find_func(parser_tree, "parse_evaluation_expression")
    loops = [n for n in f.body if isinstance(n, ast.For) and isinstance(n.target, ast.Name)
             and n.target.id == "_operator"]
    if len(loops) != 1 or not isinstance(loops[0].iter, ast.Tuple):
        raise Unsupported("parse_evaluation_expression: operator loop not found")
    out = []
    for e in loops[0].iter.elts:
        if not (isinstance(e, ast.Tuple) and len(e.elts) == 2 and isinstance(e.elts[1], ast.Constant)):
            raise Unsupported("operator tuple shape")
        out.append((tt_name(e.elts[0]), e.elts[1].value))
    return out


# ------------------------------------------------------------------------------------------------
# messages

XPE_NAMES = ("XPathParsingError", "XPathUnsupportedStandardFeature")


def fstring(e, what):
    """-> (parts, holes): parts = list of ('lit', s) | ('hole', k)"""
    if isinstance(e, ast.Constant) and isinstance(e.value, str):
        return [("lit", e.value)], []
    if isinstance(e, ast.JoinedStr):
        parts, holes = [], []
        for v in e.values:
            if isinstance(v, ast.Constant):
                parts.append(("lit", v.value))
            elif isinstance(v, ast.FormattedValue) and v.conversion == -1 and v.format_spec is None:
                parts.append(("hole", len(holes)))
                holes.append(ast.unparse(v.value))
            else:
                raise Unsupported("format spec / conversion in message of " + what)
        return parts, holes
    raise Unsupported("message of %s is not a string literal or f-string" % what)


def message_defs(trees):
    """trees: [(prefix, function ast)] -> (definitions text, [(name, holes)])"""
    out, table = "", []
    for fname, f in trees:
        k = 0
        for n in sorted((x for x in ast.walk(f) if isinstance(x, ast.Raise)), key=lambda x: (x.lineno, x.col_offset)):
            if isinstance(n.exc, ast.Call) and isinstance(n.exc.func, ast.Name) \
                    and n.exc.func.id in XPE_NAMES:
                kw = {x.arg: x.value for x in n.exc.keywords}
                if n.exc.args:
                    raise Unsupported("positional arguments to %s in %s" % (n.exc.func.id, fname))
                key = "message" if n.exc.func.id == "XPathParsingError" else "feature_description"
                if key not in kw:
                    raise Unsupported("%s raised without %s in %s" % (n.exc.func.id, key, fname))
                parts, holes = fstring(kw[key], fname)
                name = "msg_%s_%d" % (ident(fname), k)
                k += 1
                args = "".join(" (h%d : str)" % i for i in range(len(holes)))
                body = " ++ ".join(clit(p[1]) if p[0] == "lit" else "h%d" % p[1] for p in parts) or "[]"
                out += "Definition %s%s : str := %s.\n" % (name, args, body)
                table.append((name, n.exc.func.id, sorted(a for a in kw if a != key), holes))
    return out, table


def unsupported_message(exc_tree):
    f = find_func(exc_tree, "XPathUnsupportedStandardFeature.__init__")
    args = [a.arg for a in f.args.args]
    if args != ["self", "position", "feature_description"] or len(f.body) != 1:
        raise Unsupported("XPathUnsupportedStandardFeature.__init__ signature/body changed")
    call = f.body[0].value if isinstance(f.body[0], ast.Expr) else None
    if not (isinstance(call, ast.Call) and ast.unparse(call.func) == "super().__init__" and not call.args):
        raise Unsupported("XPathUnsupportedStandardFeature.__init__ does not call super().__init__(...)")
    kw = {x.arg: x.value for x in call.keywords}
    if set(kw) != {"position", "message"} or ast.unparse(kw["position"]) != "position":
        raise Unsupported("XPathUnsupportedStandardFeature.__init__ keywords changed")
    parts, holes = fstring(kw["message"], "XPathUnsupportedStandardFeature.__init__")
    if holes != ["feature_description"]:
        raise Unsupported("XPathUnsupportedStandardFeature message holes changed")
    body = " ++ ".join(clit(p[1]) if p[0] == "lit" else "feature_description" for p in parts)
    return "Definition msg_unsupported (feature_description : str) : str := %s.\n" % body


# ------------------------------------------------------------------------------------------------
# XPathParsingError.__str__ by shape

STR_TEMPLATE = '''
def __str__(self):
    expression = self.expression
    assert expression is not None
    assert self.message is not None
    position = self.position
    assert self.position is not None
    expression_length = len(expression)
    snippet_end = min(position + K0, expression_length)
    if expression_length > snippet_end:
        snippet = f"S0{expression[position:snippet_end]}S1"
    else:
        snippet = f"S2{expression[position:snippet_end]}S3"
    if len(snippet) > K1:
        return f"S4{position}S5{snippet}S6{self.message}"
    else:
        return f"S7{position}S8{self.message}"
'''


def abstract_consts(node):
    """copy of the function with every str/int constant replaced by a placeholder; returns (dump, constants)"""
    consts = []

    class T(ast.NodeTransformer):
        def visit_Constant(self, n):
            if isinstance(n.value, (str, int)) and not isinstance(n.value, bool):
                consts.append(n.value)
                return ast.copy_location(ast.Constant(value="?" if isinstance(n.value, str) else 0), n)
            return n
    new = T().visit(ast.parse(ast.unparse(node)))
    return ast.dump(new), consts


def render_text(exc_tree):
    src = STR_TEMPLATE.replace("K0", "1600").replace("K1", "200")
    f = find_func(exc_tree, "XPathParsingError.__str__")
    got, consts = abstract_consts(f)
    want, tconsts = abstract_consts(ast.parse(src).body[0])
    if got != want or len(consts) != len(tconsts):
        raise Unsupported("XPathParsingError.__str__ no longer has the shape of the template in gen_xpath.py")
    env = {}
    for t, c in zip(tconsts, consts):
        key = {1600: "K0", 200: "K1"}.get(t, t)
        if isinstance(c, int) != (key in ("K0", "K1")):
            raise Unsupported("XPathParsingError.__str__: constant kinds changed")
        env[key] = c
    if env["K0"] < 0 or env["K1"] < 0:
        raise Unsupported("negative constant in XPathParsingError.__str__")
    S = {k: clit(v) for k, v in env.items() if k.startswith("S")}
    return (
        "Definition xpe_snippet_window : nat := %d.\n" % env["K0"] +
        "Definition xpe_render (expression : str) (position : nat) (message : str) : str :=\n"
        "  let expression_length := length expression in\n"
        "  let snippet_end := Nat.min (position + xpe_snippet_window) expression_length in\n"
        "  let snippet := if Nat.ltb snippet_end expression_length\n"
        "                 then %s ++ py_slice expression position snippet_end ++ %s\n"
        "                 else %s ++ py_slice expression position snippet_end ++ %s in\n"
        "  if Nat.ltb %d (length snippet)\n"
        "  then %s ++ dec position ++ %s ++ snippet ++ %s ++ message\n"
        "  else %s ++ dec position ++ %s ++ message.\n"
        % (S["S0"], S["S1"], S["S2"], S["S3"], env["K1"], S["S4"], S["S5"], S["S6"], S["S7"], S["S8"]))


# ------------------------------------------------------------------------------------------------
# audit of partial operations

DICTS = ("NODE_TYPE_TEST_MAPPING", "OPERATORS", "COMPLEMENTING_TOKEN_TYPES")


def audit_function(f):
    counts = {}

    def add(k):
        counts[k] = counts.get(k, 0) + 1

    skip = set()
    for n in ast.walk(f):
        if isinstance(n, ast.AnnAssign):
            for m in ast.walk(n.annotation):
                skip.add(id(m))
        if isinstance(n, ast.arguments):
            for a in n.args + n.kwonlyargs + n.posonlyargs:
                if a.annotation is not None:
                    for m in ast.walk(a.annotation):
                        skip.add(id(m))
    if f.returns is not None:
        for m in ast.walk(f.returns):
            skip.add(id(m))
    for n in ast.walk(f):
        if id(n) in skip:
            continue
        if isinstance(n, ast.Subscript):
            if isinstance(n.slice, ast.Slice):
                add("slice")
            elif isinstance(n.value, ast.Name) and n.value.id in DICTS:
                add("dict_lookup")
            else:
                add("subscript")
        elif isinstance(n, ast.Assert):
            add("assert")
        elif isinstance(n, ast.Call):
            if isinstance(n.func, ast.Attribute) and n.func.attr == "pop":
                add("pop")
            elif isinstance(n.func, ast.Name) and n.func.id == "int":
                add("int")
            elif isinstance(n.func, ast.Name) and n.func.id == "getattr":
                add("getattr")
            elif isinstance(n.func, ast.Name) and n.func.id in ("Axis", "Function"):
                add("call_" + n.func.id)
        elif isinstance(n, ast.Raise):
            if n.exc is None:
                add("reraise")
            elif isinstance(n.exc, ast.Call) and isinstance(n.exc.func, ast.Name):
                add("raise_" + n.exc.func.id)
            elif isinstance(n.exc, ast.Name):
                add("raise_" + n.exc.id)
            else:
                raise Unsupported("raise of unexpected shape in " + f.name)
        elif isinstance(n, ast.ExceptHandler):
            add("except_" + (ast.unparse(n.type) if n.type is not None else "all"))
        elif isinstance(n, (ast.While,)):
            add("while")
        elif isinstance(n, (ast.Try,)):
            pass
    return sorted(counts.items())


# ------------------------------------------------------------------------------------------------

def gen_xpath():
    import inspect
    import unicodedata
    if REPO not in sys.path:
        sys.path.insert(0, REPO)
    import _delb.xpath.tokenizer as T
    import _delb.xpath.ast as A
    from _delb.plugins import plugin_manager

    tok_src, par_src = read("_delb/xpath/tokenizer.py"), read("_delb/xpath/parser.py")
    ast_src, exc_src = read("_delb/xpath/ast.py"), read("_delb/exceptions.py")
    tok_tree, par_tree, ast_tree, exc_tree = (ast.parse(x) for x in (tok_src, par_src, ast_src, exc_src))

    out = "From Coq Require Import List NArith Arith.\nFrom Delb.Base Require Import PyStr.\n" \
          "From Delb.XPath Require Import XBase.\nImport ListNotations.\n\n"

    # -- TokenType
    members = list(T.TokenType.__members__)
    if not all(re.fullmatch(r"[A-Z][A-Z_]*", m) for m in members):
        raise Unsupported("TokenType member names")
    out += "Inductive tkind := " + " | ".join(members) + ".\n"
    out += "Definition tkind_id (k : tkind) : N := match k with " + \
           " | ".join("%s => %d%%N" % (m, i) for i, m in enumerate(members)) + " end.\n"
    out += "Definition tkind_eqb (a b : tkind) : bool := N.eqb (tkind_id a) (tkind_id b).\n"
    out += "Definition tkind_all : list tkind := [" + "; ".join(members) + "].\n"
    out += "Definition tkind_name (k : tkind) : str := match k with " + \
           " | ".join("%s => %s" % (m, clit(m)) for m in members) + " end.\n\n"

    # -- character classes
    for nm in ("name_start_characters", "name_characters"):
        if not isinstance(getattr(T, nm, None), str):
            raise Unsupported("tokenizer.%s is not a string" % nm)
    start_body, char_body = T.name_start_characters, T.name_characters
    if not char_body.startswith(start_body):
        raise Unsupported("name_characters does not extend name_start_characters")
    if T.name_pattern != "[%s][%s]*" % (start_body, char_body):
        raise Unsupported("name_pattern is not [start][chars]*")
    start_ranges = parse_class_body(start_body)
    extra_ranges = parse_class_body(char_body[len(start_body):])
    validate_ranges(start_body, start_ranges)
    validate_ranges(char_body, start_ranges + extra_ranges)
    out += "Definition name_start_ranges : list (N * N) := %s.\n" % cranges(start_ranges)
    out += "Definition name_extra_ranges : list (N * N) := %s.\n" % cranges(extra_ranges)

    # -- digits (regex \d under re.UNICODE == Unicode Nd) and int()
    rx = re.compile(r"\d", re.UNICODE)
    nd = [c for c in range(0x110000) if rx.fullmatch(chr(c))]
    runs = []
    for c in nd:
        if runs and runs[-1][1] == c - 1:
            runs[-1][1] = c
        else:
            runs.append([c, c])
    for a, b in runs:
        for c in range(a, b + 1):
            if unicodedata.decimal(chr(c), None) != (c - a) % 10 or int(chr(c)) != (c - a) % 10:
                raise Unsupported("digit U+%04X does not have value (c - start of its run) mod 10" % c)
    out += "Definition digit_ranges : list (N * N) := %s.\n" % cranges([tuple(r) for r in runs])
    out += "Definition int_max_str_digits : nat := %d.\n\n" % sys.get_int_max_str_digits()

    # -- the alternation
    g = getattr(T.grab_token, "__self__", None)
    if not isinstance(g, re.Pattern) or T.grab_token.__name__ != "search":
        raise Unsupported("grab_token is not <compiled pattern>.search")
    if g.flags != re.UNICODE.value:
        raise Unsupported("grab_token flags are not exactly re.UNICODE")
    alts = split_alternatives(g.pattern)
    shown = []
    for name, pat in alts:
        if name == "NAME":
            if pat != T.name_pattern:
                raise Unsupported("NAME alternative is not name_pattern")
            pat = "[<name_start_ranges>][<name_start_ranges><name_extra_ranges>]*"
        if name == "STRING" and pat != EXPECTED_STRING_PATTERN:
            raise Unsupported("the STRING alternative of grab_token is no longer %s (Tok.scan_string models exactly that "
                              "pattern: one unit per step, no nested quantifier)" % EXPECTED_STRING_PATTERN)
        if name not in members and name != "ERROR":
            raise Unsupported("alternative %s is not a TokenType member" % name)
        shown.append((name, pat))
    out += "Definition tok_alternatives : list (str * str) := [\n  " + \
           ";\n  ".join("(%s, %s)" % (clit(n), clit(p)) for n, p in shown) + "].\n\n"

    # -- COMPLEMENTING_TOKEN_TYPES
    comp = top_assign(tok_tree, "COMPLEMENTING_TOKEN_TYPES")
    if not isinstance(comp, ast.Dict):
        raise Unsupported("COMPLEMENTING_TOKEN_TYPES is not a dict literal")
    out += "Definition complementing : list (tkind * tkind) := [" + \
           "; ".join("(%s, %s)" % (tt_name(k), tt_name(v)) for k, v in zip(comp.keys, comp.values)) + "].\n"

    # -- expand_axes
    exps = expansions(par_tree)
    out += "Definition axis_expansions : list (tkind * list (str * tkind)) := [\n  " + ";\n  ".join(
        "(%s, [%s])" % (k, "; ".join("(%s, %s)" % (clit(s), t) for s, t in toks)) for k, toks in exps) + "].\n"

    # -- operators
    oo = operator_order(par_tree)
    out += "Definition operator_order : list (tkind * str) := [" + \
           "; ".join("(%s, %s)" % (k, clit(s)) for k, s in oo) + "].\n"
    ops = top_assign(par_tree, "OPERATORS")
    if not (isinstance(ops, ast.Dict) and all(isinstance(k, ast.Constant) and isinstance(v, ast.Attribute)
                                              and isinstance(v.value, ast.Name) and v.value.id == "operator"
                                              for k, v in zip(ops.keys, ops.values))):
        raise Unsupported("OPERATORS is not a dict literal of operator.<fn>")
    out += "Definition operators : list (str * str) := [" + \
           "; ".join("(%s, %s)" % (clit(k.value), clit(v.attr)) for k, v in zip(ops.keys, ops.values)) + "].\n"

    # -- NODE_TYPE_TEST_MAPPING
    m = top_assign(par_tree, "NODE_TYPE_TEST_MAPPING")
    if not (isinstance(m, ast.Dict) and all(isinstance(k, ast.Constant) and isinstance(v, ast.Constant)
                                            and isinstance(k.value, str) and isinstance(v.value, str)
                                            for k, v in zip(m.keys, m.values))):
        raise Unsupported("NODE_TYPE_TEST_MAPPING is not a dict literal of strings")
    out += "Definition node_type_test_mapping : list (str * str) := [" + \
           "; ".join("(%s, %s)" % (clit(k.value), clit(v.value)) for k, v in zip(m.keys, m.values)) + "].\n\n"

    # -- the name the node test with an argument must have (if tokens[0].string != "...": raise XPathParsingError)
    step = find_func(par_tree, "parse_location_step")
    names = [n.test.comparators[0].value for n in ast.walk(step)
             if isinstance(n, ast.If) and isinstance(n.test, ast.Compare) and len(n.test.ops) == 1
             and isinstance(n.test.ops[0], ast.NotEq) and isinstance(n.test.comparators[0], ast.Constant)
             and isinstance(n.test.comparators[0].value, str) and ast.unparse(n.test.left) == "tokens[0].string"
             and len(n.body) == 1 and isinstance(n.body[0], ast.Raise) and not n.orelse]
    if len(names) != 1:
        raise Unsupported("parse_location_step: the test on the name of a node test with an argument changed")
    out += "Definition pi_test_name : str := %s.\n" % clit(names[0])
    ops_excl = [n for n in ast.walk(find_func(par_tree, "parse_evaluation_expression"))
                if isinstance(n, ast.Compare) and len(n.ops) == 1 and isinstance(n.ops[0], ast.NotIn)
                and ast.unparse(n.left) == "token.string" and isinstance(n.comparators[0], ast.Tuple)]
    if len(ops_excl) != 1 or not all(isinstance(e, ast.Constant) and isinstance(e.value, str)
                                     for e in ops_excl[0].comparators[0].elts):
        raise Unsupported("parse_evaluation_expression: `token.string not in (...)` changed")
    out += "Definition logical_operators : list str := [%s].\n" % "; ".join(
        clit(e.value) for e in ops_excl[0].comparators[0].elts)
    # the functions whose attribute argument stays a HasAttribute:
    # `isinstance(argument, HasAttribute) and tokens[0].string not in (...)`
    keep = [n for n in ast.walk(find_func(par_tree, "parse_evaluation_expression"))
            if isinstance(n, ast.BoolOp) and isinstance(n.op, ast.And) and len(n.values) == 2
            and ast.unparse(n.values[0]) == "isinstance(argument, HasAttribute)"
            and isinstance(n.values[1], ast.Compare) and len(n.values[1].ops) == 1
            and isinstance(n.values[1].ops[0], ast.NotIn) and ast.unparse(n.values[1].left) == "tokens[0].string"
            and isinstance(n.values[1].comparators[0], ast.Tuple)]
    if len(keep) != 1 or not all(isinstance(e, ast.Constant) and isinstance(e.value, str)
                                 for e in keep[0].values[1].comparators[0].elts):
        raise Unsupported("parse_evaluation_expression: the conversion of attribute arguments is no longer "
                          "`isinstance(argument, HasAttribute) and tokens[0].string not in (<names>)`")
    out += "Definition existence_functions : list str := [%s].\n\n" % "; ".join(
        clit(e.value) for e in keep[0].values[1].comparators[0].elts)

    # -- function registry (plugin_manager.xpath_functions as ast.Function.__init__ reads it)
    rows = []
    for k, fn in sorted(plugin_manager.xpath_functions.items()):
        if not isinstance(k, str):
            raise Unsupported("non-string XPath function name")
        ps = inspect.signature(fn).parameters
        if not ps:
            raise Unsupported("XPath function %s without parameters" % k)
        var = tuple(ps.values())[-1].kind == inspect.Parameter.VAR_POSITIONAL
        rows.append("(%s, (%d, %s))" % (clit(k), len(ps), "true" if var else "false"))
    out += "Definition xpath_functions : list (str * (nat * bool)) := [\n  " + ";\n  ".join(rows) + "].\n"

    # -- names Axis(name) accepts: `if name not in self._names: raise ...; self.generator = getattr(self, name.replace('-','_'))`
    ax_init = find_func(ast_tree, "Axis.__init__")
    body = [ast.unparse(x) for x in ax_init.body]
    if len(body) != 2 or not body[0].startswith("if name not in self._names:\n    raise XPathParsingError(") \
            or body[1] != "self.generator = getattr(self, name.replace('-', '_'))":
        raise Unsupported("Axis.__init__ is no longer `if name not in self._names: raise XPathParsingError(...); "
                          "self.generator = getattr(self, name.replace('-', '_'))`")
    names = getattr(A.Axis, "_names", None)
    if not isinstance(names, frozenset) or not all(isinstance(x, str) for x in names):
        raise Unsupported("Axis._names is not a frozenset of strings")
    probe = object.__new__(A.Axis)
    rows = []
    for nm in sorted(names):
        try:
            gobj = getattr(probe, nm.replace("-", "_"))        # the second statement of __init__ must not fail
            gname = gobj.__name__
        except Exception:  # noqa: BLE001
            raise Unsupported("Axis._names contains %r but an Axis object has no such generator method" % nm)
        if not callable(gobj) or not isinstance(gname, str):
            raise Unsupported("Axis attribute for %r is not a method" % nm)
        rows.append("(%s, %s)" % (clit(nm), clit(gname)))
    out += "Definition axis_names : list (str * str) := [\n  " + ";\n  ".join(rows) + "].\n\n"

    # -- messages
    fns = [("tokenize", find_func(tok_tree, "tokenize"))]
    for q in ("group_enclosed_expressions", "parse_location_path", "parse_location_step",
              "parse_evaluation_expression"):
        fns.append((q, find_func(par_tree, q)))
    fns.append(("parse", find_func(par_tree, "parse")))
    fns.append(("Axis", find_func(ast_tree, "Axis.__init__")))
    fns.append(("Function", find_func(ast_tree, "Function.__init__")))
    defs, table = message_defs(fns)
    out += unsupported_message(exc_tree) + defs
    out += "Definition msg_sites : list (str * (str * (list str * list str))) := [\n  " + ";\n  ".join(
        "(%s, (%s, ([%s], [%s])))" % (clit(n), clit(cls), "; ".join(clit(a) for a in kws),
                                      "; ".join(clit(h) for h in holes))
        for n, cls, kws, holes in table) + "].\n\n"

    # -- XPathParsingError.__init__ / __str__
    init = find_func(exc_tree, "XPathParsingError.__init__")
    if [a.arg for a in init.args.args] != ["self", "expression", "position", "message"] or \
            [ast.unparse(d) for d in init.args.defaults] != ["None", "None", "None"]:
        raise Unsupported("XPathParsingError.__init__ signature changed")
    out += render_text(exc_tree) + "\n"

    # -- parse(): the handler that fills in expression and position
    pf = find_func(par_tree, "parse")
    handler = [n for n in ast.walk(pf) if isinstance(n, ast.ExceptHandler)]
    if len(handler) != 2 or ast.unparse(handler[0].type) != "XPathParsingError" or \
            [ast.unparse(s) for s in handler[0].body] != ["e.expression = expression",
                                                          "if e.position is None:\n    e.position = 0", "raise e"]:
        raise Unsupported("parse(): the XPathParsingError handler changed")
    # except RecursionError: raise XPathParsingError(expression=expression, position=0, message=<literal>)
    h2 = handler[1]
    ok = ast.unparse(h2.type) == "RecursionError" and h2.name is None and len(h2.body) == 1 \
        and isinstance(h2.body[0], ast.Raise) and isinstance(h2.body[0].exc, ast.Call) \
        and ast.unparse(h2.body[0].exc.func) == "XPathParsingError" and not h2.body[0].exc.args
    if ok:
        kw = {x.arg: x.value for x in h2.body[0].exc.keywords}
        ok = set(kw) == {"expression", "position", "message"} and ast.unparse(kw["expression"]) == "expression" \
            and ast.unparse(kw["position"]) == "0" and isinstance(kw["message"], ast.Constant)
    if not ok:
        raise Unsupported("parse(): the RecursionError handler is not `raise XPathParsingError(expression=expression, "
                          "position=0, message=<literal>)`")
    tries = [n for n in ast.walk(pf) if isinstance(n, ast.Try)]
    if len(tries) != 1 or tries[0] is not pf.body[0] or len(pf.body) != 1:
        raise Unsupported("parse(): the body is no longer one try statement")
    caches = []
    for qual, tree in (("tokenize", tok_tree), ("parse", par_tree)):
        fd = find_func(tree, qual)
        decs = [ast.unparse(d) for d in fd.decorator_list]
        if len(decs) != 1 or not re.fullmatch(r"lru_cache\(\d+\)", decs[0]):
            raise Unsupported("%s is no longer decorated with exactly lru_cache(<n>)" % qual)
        caches.append(int(decs[0][10:-1]))
    out += "Definition tokenize_cache_size : nat := %d.\nDefinition parse_cache_size : nat := %d.\n\n" % tuple(caches)

    # -- functools.cached_property on AST nodes (the nodes are shared between callers through the parse cache):
    #    which ones exist, and that no method other than __init__ assigns to an attribute of self, so that
    #    what a cached property computes from cannot change after construction
    cps = []
    for c in ast_tree.body:
        if not isinstance(c, ast.ClassDef):
            continue
        for f in c.body:
            if not isinstance(f, ast.FunctionDef):
                continue
            if any(ast.unparse(d).endswith("cached_property") for d in f.decorator_list):
                cps.append((c.name, f.name))
            if f.name == "__init__":
                continue
            for n in ast.walk(f):
                tg = n.targets if isinstance(n, ast.Assign) else \
                    [n.target] if isinstance(n, (ast.AugAssign, ast.AnnAssign)) else \
                    n.targets if isinstance(n, ast.Delete) else []
                for x in tg:
                    for y in ast.walk(x):
                        if isinstance(y, ast.Attribute) and isinstance(y.value, ast.Name) and y.value.id == "self":
                            raise Unsupported("ast.py: %s.%s assigns to self.%s outside __init__ (AST nodes are shared "
                                              "through the parse cache)" % (c.name, f.name, y.attr))
                if isinstance(n, ast.Call) and isinstance(n.func, ast.Name) and n.func.id in ("setattr", "delattr"):
                    raise Unsupported("ast.py: %s.%s uses %s" % (c.name, f.name, n.func.id))
    # the same for every function of the module, nested ones included (decorators such as ensure_prefix wrap the
    # evaluate methods and receive the node as `self`): nothing but an __init__ may write to an attribute of `self`
    for fdef in (n for n in ast.walk(ast_tree) if isinstance(n, (ast.FunctionDef, ast.Lambda))):
        if isinstance(fdef, ast.FunctionDef) and fdef.name == "__init__":
            continue
        for n in ast.walk(fdef):
            if isinstance(n, ast.FunctionDef) and n is not fdef and n.name == "__init__":
                continue
            tg = n.targets if isinstance(n, (ast.Assign, ast.Delete)) else \
                [n.target] if isinstance(n, (ast.AugAssign, ast.AnnAssign)) else []
            for x in tg:
                for y in ast.walk(x):
                    if isinstance(y, ast.Attribute) and isinstance(y.value, ast.Name) and y.value.id == "self":
                        raise Unsupported("ast.py: %s writes self.%s outside __init__ (AST nodes are shared through the "
                                          "parse cache)" % (getattr(fdef, "name", "<lambda>"), y.attr))
            if isinstance(n, ast.Call) and isinstance(n.func, ast.Name) and n.func.id in ("setattr", "delattr") \
                    or isinstance(n, ast.Call) and ast.unparse(n.func) in ("object.__setattr__", "self.__dict__.update",
                                                                           "self.__dict__.setdefault"):
                raise Unsupported("ast.py: %s uses %s" % (getattr(fdef, "name", "<lambda>"), ast.unparse(n.func)))
            if isinstance(n, ast.Subscript) and isinstance(n.ctx, (ast.Store, ast.Del)) \
                    and ast.unparse(n.value) == "self.__dict__":
                raise Unsupported("ast.py: %s writes self.__dict__[...]" % getattr(fdef, "name", "<lambda>"))
    out += "Definition cached_properties : list (str * str) := [%s].\n\n" % "; ".join(
        "(%s, %s)" % (clit(a), clit(b)) for a, b in cps)

    # -- audit
    audited = [("tokenizer.tokenize", find_func(tok_tree, "tokenize"))]
    for n in par_tree.body:
        if isinstance(n, ast.FunctionDef):
            audited.append(("parser." + n.name, n))
        elif isinstance(n, ast.ClassDef):
            raise Unsupported("parser.py defines a class (%s): not covered by the audit" % n.name)
    audited.append(("ast.Axis.__init__", find_func(ast_tree, "Axis.__init__")))
    audited.append(("ast.Function.__init__", find_func(ast_tree, "Function.__init__")))
    audited.append(("exceptions.XPathParsingError.__str__", find_func(exc_tree, "XPathParsingError.__str__")))
    out += "Definition audit : list (str * list (str * N)) := [\n  " + ";\n  ".join(
        "(%s, [%s])" % (clit(q), "; ".join("(%s, %d%%N)" % (clit(k), v) for k, v in audit_function(f)))
        for q, f in audited) + "].\n"
    return out


GENERATORS = {
    "GenXPath.v": ("_delb/xpath/tokenizer.py, parser.py, ast.py (Axis/Function constructors), _delb/exceptions.py, "
                   "plugin_manager.xpath_functions and the Unicode tables of the running interpreter", gen_xpath),
}


# ------------------------------------------------------------------------------------------------
# Gen/GenXPathFns.v: the helpers of parser.py that are loops over token lists, translated statement by
# statement (fail closed).  Fragment: `if`/`else`, `return <bool>`, `return f(...)`, one `for` loop over a
# list (or zip of two) whose body updates list accumulators with .append / .extend(<tuple of Token(...)>) /
# `= []`, yields, `continue`s or returns a constant; what follows the loop is `return <acc>` / `return True` /
# a final yield.  Types: tokens : list ttree, pattern : list (option tkind), separator : tkind,
# accumulators : list ttree.

class FnTr:
    def __init__(self, f, types):
        self.f = f
        self.types = dict(types)          # name -> 'tokens' | 'pattern' | 'tkind' | 'otkind' | 'ttree' | 'acc'

    def ty(self, e):
        if isinstance(e, ast.Name) and e.id in self.types:
            return self.types[e.id]
        if isinstance(e, ast.Attribute) and isinstance(e.value, ast.Name):
            if e.value.id == "TokenType":
                return "tkind"
            if self.types.get(e.value.id) == "ttree" and e.attr == "type":
                return "tkind"
            if self.types.get(e.value.id) == "ttree" and e.attr == "position":
                return "nat"
        if isinstance(e, ast.Call) and isinstance(e.func, ast.Name) and e.func.id == "len":
            return "nat"
        if isinstance(e, ast.Constant) and e.value is None:
            return "none"
        raise Unsupported("%s: cannot type %s" % (self.f.name, ast.unparse(e)))

    def ex(self, e):
        """value expression"""
        if isinstance(e, ast.Name) and e.id in self.types:
            return e.id
        if isinstance(e, ast.Attribute) and isinstance(e.value, ast.Name):
            if e.value.id == "TokenType":
                return e.attr
            if self.types.get(e.value.id) == "ttree" and e.attr == "type":
                return "(tok_type %s)" % e.value.id
            if self.types.get(e.value.id) == "ttree" and e.attr == "position":
                return "(tok_pos %s)" % e.value.id
        if isinstance(e, ast.Call) and isinstance(e.func, ast.Name) and e.func.id == "len" and len(e.args) == 1:
            return "(length %s)" % self.ex(e.args[0])
        raise Unsupported("%s: expression %s" % (self.f.name, ast.unparse(e)))

    def cond(self, e):
        """boolean expression"""
        if isinstance(e, ast.Constant) and isinstance(e.value, bool):
            return "true" if e.value else "false"
        if isinstance(e, ast.BoolOp) and isinstance(e.op, ast.And):
            return "(" + " && ".join(self.cond(v) for v in e.values) + ")"
        if isinstance(e, ast.UnaryOp) and isinstance(e.op, ast.Not):
            return "(negb %s)" % self.cond(e.operand)
        if isinstance(e, ast.Name) and self.types.get(e.id) in ("acc", "tokens"):
            return "(negb (null %s))" % e.id                       # truthiness of a list
        if isinstance(e, ast.Call) and isinstance(e.func, ast.Name) and e.func.id == "isinstance" and len(e.args) == 2 \
                and isinstance(e.args[1], ast.Name) and e.args[1].id == "Token" \
                and isinstance(e.args[0], ast.Name) and self.types.get(e.args[0].id) == "ttree":
            return "(is_token %s)" % e.args[0].id
        if isinstance(e, ast.Call) and isinstance(e.func, ast.Name) and e.func.id == "compare_tokens_with_pattern":
            args = {"tokens": None, "pattern": None}
            if e.args and not e.keywords and len(e.args) == 2:
                args["tokens"], args["pattern"] = e.args
            elif not e.args and set(k.arg for k in e.keywords) == {"tokens", "pattern"}:
                args = {k.arg: k.value for k in e.keywords}
            else:
                raise Unsupported("%s: call of compare_tokens_with_pattern" % self.f.name)
            if self.ty(args["tokens"]) != "tokens" or self.ty(args["pattern"]) != "pattern":
                raise Unsupported("%s: argument types of compare_tokens_with_pattern" % self.f.name)
            return "(gen_compare_tokens_with_pattern %s %s)" % (self.ex(args["tokens"]), self.ex(args["pattern"]))
        if isinstance(e, ast.Compare) and len(e.ops) == 1:
            a, b, op = e.left, e.comparators[0], e.ops[0]
            ta, tb = self.ty(a), self.ty(b)
            if (ta, tb) == ("nat", "nat"):
                if isinstance(op, ast.NotEq):
                    return "(negb (Nat.eqb %s %s))" % (self.ex(a), self.ex(b))
                if isinstance(op, ast.Lt):
                    return "(Nat.ltb %s %s)" % (self.ex(a), self.ex(b))
            if (ta, tb) == ("tkind", "otkind") and isinstance(op, ast.NotEq):
                return "(negb (opt_tkind_eqb (Some %s) %s))" % (self.ex(a), self.ex(b))
            if (ta, tb) == ("tkind", "tkind") and isinstance(op, ast.Is):
                return "(tkind_eqb %s %s)" % (self.ex(a), self.ex(b))
            if (ta, tb) == ("otkind", "none") and isinstance(op, ast.IsNot):
                return "(negb (is_none %s))" % self.ex(a)
        raise Unsupported("%s: condition %s" % (self.f.name, ast.unparse(e)))

    def token_ctor(self, e):
        if isinstance(e, ast.Call) and isinstance(e.func, ast.Name) and e.func.id == "Token" and len(e.args) == 3 \
                and not e.keywords and isinstance(e.args[1], ast.Constant) and isinstance(e.args[1].value, str) \
                and self.ty(e.args[0]) == "nat" and self.ty(e.args[2]) == "tkind":
            return "TT (mkTok %s %s %s)" % (self.ex(e.args[0]), clit(e.args[1].value), self.ex(e.args[2]))
        raise Unsupported("%s: %s is not Token(<position>, <literal>, TokenType.<member>)" % (self.f.name, ast.unparse(e)))

    # -- loop bodies in continuation-passing style; `again` is the recursive call with the current accumulators
    def block(self, stmts, again, accs, out, in_loop):
        if not stmts:
            return again(accs, out) if in_loop else self.finish(accs, out)
        s, rest = stmts[0], stmts[1:]
        if isinstance(s, ast.Expr) and isinstance(s.value, ast.Constant):
            return self.block(rest, again, accs, out, in_loop)
        if isinstance(s, ast.If):
            c = self.cond(s.test)
            return "(if %s\n then %s\n else %s)" % (c, self.block(s.body + rest, again, accs, out, in_loop),
                                                  self.block(s.orelse + rest, again, accs, out, in_loop))
        if isinstance(s, ast.Return):
            if in_loop and not (isinstance(s.value, ast.Constant) and isinstance(s.value.value, bool)):
                raise Unsupported("%s: return of a non-constant inside the loop" % self.f.name)
            # (statements after a return, here the ones following the enclosing if, are not reached)
            if isinstance(s.value, ast.Name) and s.value.id in accs:
                return accs[s.value.id]
            return self.cond(s.value)
        if isinstance(s, ast.Continue):
            if not in_loop:
                raise Unsupported("%s: continue outside the loop" % self.f.name)
            return again(accs, out)
        if isinstance(s, ast.Expr) and isinstance(s.value, ast.Call) and isinstance(s.value.func, ast.Attribute) \
                and isinstance(s.value.func.value, ast.Name) and s.value.func.value.id in accs and len(s.value.args) == 1:
            name, meth, arg = s.value.func.value.id, s.value.func.attr, s.value.args[0]
            if meth == "append" and isinstance(arg, ast.Name) and self.types.get(arg.id) == "ttree":
                new = "(%s ++ [%s])" % (accs[name], arg.id)
            elif meth == "extend" and isinstance(arg, (ast.Tuple, ast.List)):
                new = "(%s ++ [%s])" % (accs[name], "; ".join(self.token_ctor(x) for x in arg.elts))
            else:
                raise Unsupported("%s: %s" % (self.f.name, ast.unparse(s)))
            return self.block(rest, again, dict(accs, **{name: new}), out, in_loop)
        if isinstance(s, ast.Assign) and len(s.targets) == 1 and isinstance(s.targets[0], ast.Name) \
                and s.targets[0].id in accs and isinstance(s.value, ast.List) and not s.value.elts:
            return self.block(rest, again, dict(accs, **{s.targets[0].id: "[]"}), out, in_loop)
        if isinstance(s, ast.Expr) and isinstance(s.value, ast.Yield) and isinstance(s.value.value, ast.Name) \
                and s.value.value.id in accs and out is not None:
            return self.block(rest, again, accs, "(%s ++ [%s])" % (out, accs[s.value.value.id]), in_loop)
        raise Unsupported("%s: statement `%s`" % (self.f.name, ast.unparse(s)[:80]))

    def finish(self, accs, out):
        if out is not None:
            return out
        raise Unsupported("%s: falls off the end" % self.f.name)


def strip_body(f):
    return [s for s in f.body if not (isinstance(s, ast.Expr) and isinstance(s.value, ast.Constant))]


def tr_loop_function(f, coqname, params, acc_names, generator, iter_kind):
    """params: [(name, coq type, tr type)].  The body must be: <acc> = [] ...; for ...: BODY; TAIL"""
    body = strip_body(f)
    tr = FnTr(f, [(n, t) for n, _, t in params])
    i = 0
    accs = []
    while i < len(body) and isinstance(body[i], (ast.Assign, ast.AnnAssign)):
        s = body[i]
        tgt = s.targets[0] if isinstance(s, ast.Assign) else s.target
        if not (isinstance(tgt, ast.Name) and isinstance(s.value, ast.List) and not s.value.elts):
            raise Unsupported("%s: initialisation `%s`" % (f.name, ast.unparse(s)[:60]))
        accs.append(tgt.id)
        i += 1
    if accs != acc_names:
        raise Unsupported("%s: accumulators %s, expected %s" % (f.name, accs, acc_names))
    if i >= len(body) or not isinstance(body[i], ast.For) or body[i].orelse:
        raise Unsupported("%s: no for loop where expected" % f.name)
    loop, tail = body[i], body[i + 1:]
    for a in accs:
        tr.types[a] = "acc"
    out0 = "out" if generator else None
    acc_params = "".join(" (%s : list ttree)" % a for a in accs) + (" (out : list (list ttree))" if generator else "")
    rettype = "list (list ttree)" if generator else ("bool" if not accs else "list ttree")
    if iter_kind == "zip":
        if not (isinstance(loop.iter, ast.Call) and ast.unparse(loop.iter.func) == "zip" and len(loop.iter.args) == 2
                and isinstance(loop.target, ast.Tuple) and len(loop.target.elts) == 2):
            raise Unsupported("%s: loop is not `for a, b in zip(x, y)`" % f.name)
        l1, l2 = (a.id for a in loop.iter.args)
        v1, v2 = (a.id for a in loop.target.elts)
        if tr.types.get(l1) != "tokens" or tr.types.get(l2) != "pattern":
            raise Unsupported("%s: zip arguments" % f.name)
        tr.types[v1], tr.types[v2] = "ttree", "otkind"

        def again(a, o):
            return "%s_loop %s' %s'" % (coqname, l1, l2)
        step = tr.block(loop.body, again, {}, None, True)
        done = tr.block(tail, None, {}, None, False)
        other = [(n, t) for n, t, _ in params if n not in (l1, l2)]
        text = "Fixpoint %s_loop (%s : list ttree) (%s : list (option tkind)) {struct %s} : bool :=\n" % (coqname, l1, l2, l1)
        text += "  match %s, %s with\n  | %s :: %s', %s :: %s' =>\n%s\n  | _, _ => %s\n  end.\n" % (l1, l2, v1, l1, v2, l2, step, done)
        text += "Definition %s %s : bool := %s_loop %s %s.\n" % (
            coqname, " ".join("(%s : %s)" % (n, t) for n, t, _ in params), coqname, l1, l2)
        return text
    if not (isinstance(loop.iter, ast.Name) and tr.types.get(loop.iter.id) == "tokens" and isinstance(loop.target, ast.Name)):
        raise Unsupported("%s: loop is not `for x in <token list>`" % f.name)
    lst, var = loop.iter.id, loop.target.id
    tr.types[var] = "ttree"
    fixed = [(n, t) for n, t, _ in params if n != lst]

    def again(a, o):
        return "%s_loop %s%s' %s%s" % (coqname, "".join(n + " " for n, _ in fixed), lst, " ".join(a[x] for x in accs),
                                       (" " + o) if generator else "")
    accs0 = {a: a for a in accs}
    step = tr.block(loop.body, again, accs0, out0, True)
    done = tr.block(tail, None, accs0, out0, False)
    text = "Fixpoint %s_loop %s(%s : list ttree)%s {struct %s} : %s :=\n" % (
        coqname, "".join("(%s : %s) " % x for x in fixed), lst, acc_params, lst, rettype)
    text += "  match %s with\n  | [] => %s\n  | %s :: %s' =>\n%s\n  end.\n" % (lst, done, var, lst, step)
    text += "Definition %s %s : %s := %s_loop %s%s %s%s.\n" % (
        coqname, " ".join("(%s : %s)" % (n, t) for n, t, _ in params), rettype, coqname,
        "".join(n + " " for n, _ in fixed), lst, " ".join("[]" for _ in accs), " []" if generator else "")
    return text


def tr_straight_function(f, coqname, params):
    tr = FnTr(f, [(n, t) for n, _, t in params])
    body = tr.block(strip_body(f), None, {}, None, False)
    return "Definition %s %s : bool :=\n  %s.\n" % (coqname, " ".join("(%s : %s)" % (n, t) for n, t, _ in params), body)


def gen_xpath_fns():
    par_tree = ast.parse(read("_delb/xpath/parser.py"))
    out = "From Coq Require Import List NArith Arith Bool.\nFrom Delb.Base Require Import PyStr.\n" \
          "From Delb.XPath Require Import XBase Tok TTree.\nFrom Delb.Gen Require Import GenXPath.\nImport ListNotations.\n\n"
    TOK = ("tokens", "list ttree", "tokens")
    PAT = ("pattern", "list (option tkind)", "pattern")

    def args_of(f):
        return [a.arg for a in f.args.args]
    f = find_func(par_tree, "compare_tokens_with_pattern")
    if args_of(f) != ["tokens", "pattern"]:
        raise Unsupported("compare_tokens_with_pattern: parameters changed")
    out += tr_loop_function(f, "gen_compare_tokens_with_pattern", [TOK, PAT], [], False, "zip") + "\n"
    for name in ("all_tokens_match", "initial_tokens_match"):
        f = find_func(par_tree, name)
        if args_of(f) != ["tokens", "pattern"]:
            raise Unsupported(name + ": parameters changed")
        out += tr_straight_function(f, "gen_" + name, [TOK, PAT]) + "\n"
    f = find_func(par_tree, "partition_tokens")
    if args_of(f) != ["separator", "tokens"]:
        raise Unsupported("partition_tokens: parameters changed")
    out += tr_loop_function(f, "gen_partition_tokens", [("separator", "tkind", "tkind"), TOK], ["current_partition"],
                            True, "list") + "\n"
    f = find_func(par_tree, "expand_axes")
    if args_of(f) != ["tokens"]:
        raise Unsupported("expand_axes: parameters changed")
    out += tr_loop_function(f, "gen_expand_axes", [TOK], ["result"], False, "list")
    return out


GENERATORS["GenXPathFns.v"] = ("_delb/xpath/parser.py compare_tokens_with_pattern, all_tokens_match, initial_tokens_match, "
                               "partition_tokens, expand_axes (translated statement by statement)", gen_xpath_fns)
