"""Fail-closed translation of a small fragment of Python (ast) to Gallina.

Supported: functions whose body is straight-line string/int/bool code (assignments, `+=`,
if/else that assign, return), and generator functions of the shape
`while COND: BODY ; TAIL` where BODY/TAIL yield values and BODY may `return`.
Anything else raises Unsupported, which the caller turns into a broken obligation.

Types: "str" (list N), "int" (Z), "bool".  String methods are mapped to the py_* primitives
of Base/PyStr.v.  The emitted text is deterministic so that unchanged sources give unchanged
.v files (and no rebuild).
"""
import ast


class Unsupported(Exception):
    pass


def lit(s):
    return "[" + "; ".join("%d%%N" % ord(c) for c in s) + "]"


STR_METHODS0 = {"strip": ("py_strip", "str"), "lstrip": ("py_lstrip", "str"),
                "rstrip": ("py_rstrip", "str"), "isspace": ("py_isspace", "bool")}
STR_METHODS1 = {"startswith": ("py_startswith", "bool"), "endswith": ("py_endswith", "bool")}
FUNCS = {"_crunch_whitespace": ("py_crunch_whitespace", ["str"], "str"),
         "bool": ("py_bool_str", ["str"], "bool"),
         "len": ("py_len", ["str"], "int")}


class Tr:
    def __init__(self, env):
        self.env = dict(env)  # name -> type

    # ---- expressions -------------------------------------------------------------------
    def expr(self, e):
        """returns (gallina, type)"""
        if isinstance(e, ast.Name):
            if e.id not in self.env:
                raise Unsupported("unknown name " + e.id)
            return e.id, self.env[e.id]
        if isinstance(e, ast.Constant):
            if isinstance(e.value, bool):
                return ("true" if e.value else "false"), "bool"
            if isinstance(e.value, str):
                return lit(e.value), "str"
            if isinstance(e.value, int):
                return "(%d)%%Z" % e.value, "int"
            raise Unsupported(ast.dump(e))
        if isinstance(e, ast.UnaryOp) and isinstance(e.op, ast.USub) and isinstance(e.operand, ast.Constant) \
                and isinstance(e.operand.value, int):
            return "(-%d)%%Z" % e.operand.value, "int"
        if isinstance(e, ast.JoinedStr):
            parts = []
            for v in e.values:
                if isinstance(v, ast.Constant):
                    parts.append(lit(v.value))
                elif isinstance(v, ast.FormattedValue) and v.conversion == -1 and v.format_spec is None:
                    g, t = self.expr(v.value)
                    if t != "str":
                        raise Unsupported("non-str in f-string")
                    parts.append(g)
                else:
                    raise Unsupported(ast.dump(v))
            return "(" + " ++ ".join(parts) + ")", "str"
        if isinstance(e, ast.BoolOp):
            gs = [self.expr(v) for v in e.values]
            if any(t != "bool" for _, t in gs):
                raise Unsupported("non-bool operand of and/or")
            op = " && " if isinstance(e.op, ast.And) else " || "
            return "(" + op.join(g for g, _ in gs) + ")%bool", "bool"
        if isinstance(e, ast.UnaryOp) and isinstance(e.op, ast.Not):
            g, t = self.expr(e.operand)
            if t == "str":      # truthiness of a string
                return "(negb (py_bool_str %s))" % g, "bool"
            if t != "bool":
                raise Unsupported("not on non-bool")
            return "(negb %s)" % g, "bool"
        if isinstance(e, ast.BinOp) and isinstance(e.op, (ast.Add, ast.Sub)):
            (a, ta), (b, tb) = self.expr(e.left), self.expr(e.right)
            if ta == tb == "int":
                return "(%s %s %s)%%Z" % (a, "+" if isinstance(e.op, ast.Add) else "-", b), "int"
            if ta == tb == "str" and isinstance(e.op, ast.Add):
                return "(%s ++ %s)" % (a, b), "str"
            raise Unsupported("binop types")
        if isinstance(e, ast.Compare) and len(e.ops) == 1 and isinstance(e.ops[0], ast.In) \
                and isinstance(e.comparators[0], ast.Tuple) \
                and all(isinstance(x, ast.Constant) and isinstance(x.value, str) for x in e.comparators[0].elts):
            a, ta = self.expr(e.left)
            if ta != "str":
                raise Unsupported("membership of non-str")
            return "(" + " || ".join("str_eqb %s %s" % (a, lit(x.value)) for x in e.comparators[0].elts) + ")%bool", "bool"
        if isinstance(e, ast.Compare) and len(e.ops) == 1 and isinstance(e.ops[0], ast.Eq) \
                and isinstance(e.left, ast.Call) and isinstance(e.left.func, ast.Attribute) \
                and e.left.func.attr == "lower" and not e.left.args and not e.left.keywords \
                and isinstance(e.comparators[0], ast.Constant) and isinstance(e.comparators[0].value, str) \
                and self.env.get("lower_pre") == "table":
            recv, tr = self.expr(e.left.func.value)
            target = e.comparators[0].value
            if tr != "str" or not target.isascii() or target.lower() != target:
                raise Unsupported("lower() comparison")
            self.lower_targets = getattr(self, "lower_targets", set()) | set(target)
            return "(py_lower_eq lower_pre %s %s)" % (recv, lit(target)), "bool"
        if isinstance(e, ast.Compare) and len(e.ops) == 1:
            (a, ta), (b, tb) = self.expr(e.left), self.expr(e.comparators[0])
            op = e.ops[0]
            if ta == tb == "int":
                sym = {ast.Gt: ">?", ast.Lt: "<?", ast.GtE: ">=?", ast.LtE: "<=?", ast.Eq: "=?"}.get(type(op))
                if sym is None:
                    raise Unsupported("int comparison")
                return "(%s %s %s)%%Z" % (a, sym, b), "bool"
            if ta == tb == "str" and isinstance(op, ast.Eq):
                return "(str_eqb %s %s)" % (a, b), "bool"
            if ta == tb == "str" and isinstance(op, ast.In):
                return "(py_contains %s %s)" % (b, a), "bool"
            raise Unsupported("comparison " + ast.dump(e))
        if isinstance(e, ast.Subscript) and isinstance(e.slice, ast.Slice) and e.slice.step is None:
            s, ts = self.expr(e.value)
            if ts != "str":
                raise Unsupported("slice of non-str")
            lo, hi = e.slice.lower, e.slice.upper
            if lo is None and hi is not None:
                g, t = self.expr(hi)
                if t != "int":
                    raise Unsupported("slice bound")
                return "(py_slice_to %s %s)" % (s, g), "str"
            if hi is None and lo is not None:
                g, t = self.expr(lo)
                if t != "int":
                    raise Unsupported("slice bound")
                return "(py_slice_from %s %s)" % (s, g), "str"
            raise Unsupported("slice form")
        if isinstance(e, ast.Call) and not e.keywords and isinstance(e.func, ast.Attribute) and e.func.attr == "get" \
                and isinstance(e.func.value, ast.Attribute) and e.func.value.attr == "attributes" \
                and isinstance(e.func.value.value, ast.Name) and e.func.value.value.id == "self" \
                and len(e.args) == 1 and isinstance(e.args[0], ast.Tuple) and len(e.args[0].elts) == 2 \
                and self.env.get("self.attributes") == "attrs":
            ns, key = e.args[0].elts
            if isinstance(ns, ast.Name) and ns.id in ("XML_NAMESPACE", "XMLNS_NAMESPACE"):
                g_ns = {"XML_NAMESPACE": "xml_ns", "XMLNS_NAMESPACE": "xmlns_ns"}[ns.id]
            else:
                g_ns, t = self.expr(ns)
                if t != "str":
                    raise Unsupported("attribute namespace")
            g_k, t = self.expr(key)
            if t != "str":
                raise Unsupported("attribute name")
            return "(get_attr %s %s self_attributes)" % (g_ns, g_k), "optstr"
        if isinstance(e, ast.Call) and not e.keywords:
            f = e.func
            if isinstance(f, ast.Attribute):
                recv, tr = self.expr(f.value)
                if tr != "str":
                    raise Unsupported("method on non-str")
                if f.attr in STR_METHODS0 and len(e.args) == 0:
                    n, t = STR_METHODS0[f.attr]
                    return "(%s %s)" % (n, recv), t
                if f.attr in STR_METHODS1 and len(e.args) == 1:
                    n, t = STR_METHODS1[f.attr]
                    a, ta = self.expr(e.args[0])
                    if ta != "str":
                        raise Unsupported("method arg")
                    return "(%s %s %s)" % (n, recv, a), t
                if f.attr == "rfind" and len(e.args) == 3 and self._onechar(e.args[0]) is not None \
                        and isinstance(e.args[1], ast.Constant) and e.args[1].value == 0:
                    g, t = self.expr(e.args[2])
                    if t != "int":
                        raise Unsupported("rfind stop")
                    return "(py_rfind1 %s %d%%N %s)" % (recv, self._onechar(e.args[0]), g), "int"
                if f.attr == "find" and len(e.args) == 2 and self._onechar(e.args[0]) is not None:
                    g, t = self.expr(e.args[1])
                    if t != "int":
                        raise Unsupported("find start")
                    return "(py_find1 %s %d%%N %s)" % (recv, self._onechar(e.args[0]), g), "int"
            if isinstance(f, ast.Name) and f.id in FUNCS:
                n, ats, rt = FUNCS[f.id]
                if len(e.args) != len(ats):
                    raise Unsupported("arity")
                gs = [self.expr(a) for a in e.args]
                if [t for _, t in gs] != ats:
                    raise Unsupported("argument types of " + f.id)
                return "(%s %s)" % (n, " ".join(g for g, _ in gs)), rt
        raise Unsupported(ast.dump(e))

    @staticmethod
    def _onechar(e):
        if isinstance(e, ast.Constant) and isinstance(e.value, str) and len(e.value) == 1:
            return ord(e.value)
        return None

    # ---- conditions with walrus, turned into nested ifs ---------------------------------
    def cond(self, test, then_k, else_k):
        """then_k/else_k: thunks returning gallina under the current env"""
        if isinstance(test, ast.BoolOp) and isinstance(test.op, ast.Or):
            def chain(vals):
                if len(vals) == 1:
                    return self.cond(vals[0], then_k, else_k)
                return self.cond(vals[0], then_k, lambda: chain(vals[1:]))
            return chain(test.values)
        if isinstance(test, ast.BoolOp) and isinstance(test.op, ast.And) and self._has_walrus(test):
            def chain(vals):
                if len(vals) == 1:
                    return self.cond(vals[0], then_k, else_k)
                return self.cond(vals[0], lambda: chain(vals[1:]), else_k)
            return chain(test.values)
        if isinstance(test, ast.Compare) and isinstance(test.left, ast.NamedExpr):
            ne = test.left
            g, t = self.expr(ne.value)
            saved = dict(self.env)
            self.env[ne.target.id] = t
            new = ast.Compare(left=ast.Name(id=ne.target.id, ctx=ast.Load()), ops=test.ops,
                              comparators=test.comparators)
            body = self.cond(new, then_k, else_k)
            self.env = saved
            return "let %s := %s in\n  %s" % (ne.target.id, g, body)
        if self._has_walrus(test):
            raise Unsupported("walrus form " + ast.dump(test))
        g, t = self.expr(test)
        if t == "str":
            g, t = "(py_bool_str %s)" % g, "bool"
        if t != "bool":
            raise Unsupported("condition type")
        return "if %s then %s else %s" % (g, then_k(), else_k())

    @staticmethod
    def _has_walrus(e):
        return any(isinstance(x, ast.NamedExpr) for x in ast.walk(e))

    # ---- straight-line blocks -----------------------------------------------------------
    def assigned(self, stmts):
        out = []
        for s in stmts:
            if isinstance(s, ast.Assign) and len(s.targets) == 1 and isinstance(s.targets[0], ast.Name):
                out.append(s.targets[0].id)
            elif isinstance(s, ast.AugAssign) and isinstance(s.target, ast.Name):
                out.append(s.target.id)
            elif isinstance(s, ast.If):
                out += self.assigned(s.body) + self.assigned(s.orelse)
            elif isinstance(s, (ast.Return, ast.Expr)):
                pass
            else:
                raise Unsupported(ast.dump(s))
        return list(dict.fromkeys(out))

    def block(self, stmts, result_vars=None):
        if not stmts:
            if result_vars is None:
                raise Unsupported("function falls off the end")
            return "(" + ", ".join(result_vars) + ")" if len(result_vars) != 1 else result_vars[0]
        s, rest = stmts[0], stmts[1:]
        if isinstance(s, ast.Expr) and isinstance(s.value, ast.Constant):
            return self.block(rest, result_vars)
        if isinstance(s, ast.Return):
            if result_vars is not None:
                raise Unsupported("return inside branch")
            g, _ = self.expr(s.value)
            return g
        if isinstance(s, ast.Assign) and len(s.targets) == 1 and isinstance(s.targets[0], ast.Name):
            g, t = self.expr(s.value)
            self.env[s.targets[0].id] = t
            return "let %s := %s in\n  %s" % (s.targets[0].id, g, self.block(rest, result_vars))
        if isinstance(s, ast.AugAssign) and isinstance(s.op, ast.Add) and isinstance(s.target, ast.Name):
            g, t = self.expr(ast.BinOp(left=ast.Name(id=s.target.id, ctx=ast.Load()), op=ast.Add(), right=s.value))
            return "let %s := %s in\n  %s" % (s.target.id, g, self.block(rest, result_vars))
        if isinstance(s, ast.Expr) and isinstance(s.value, ast.Call) and isinstance(s.value.func, ast.Attribute) \
                and isinstance(s.value.func.value, ast.Name) and s.value.func.value.id == "warnings" \
                and s.value.func.attr == "warn":
            return self.block(rest, result_vars)  # a warning has no effect on the value
        if isinstance(s, ast.If) and not s.orelse and s.body and isinstance(s.body[-1], ast.Return) \
                and result_vars is None:
            # `if c: ...; return X` followed by the rest  ==  if c then X else rest
            t = s.test
            if isinstance(t, ast.Compare) and len(t.ops) == 1 and isinstance(t.ops[0], ast.Is) \
                    and isinstance(t.left, ast.Name) and isinstance(t.comparators[0], ast.Constant) \
                    and t.comparators[0].value is None and self.env.get(t.left.id) == "optstr":
                saved = dict(self.env)
                a = self.block(s.body)
                self.env = dict(saved)
                self.env[t.left.id] = "str"
                b = self.block(rest)
                self.env = saved
                return "match %s with\n  | None => %s\n  | Some %s => %s\n  end" % (t.left.id, a, t.left.id, b)
            test, tt = self.expr(t)
            if tt != "bool":
                raise Unsupported("if test type")
            saved = dict(self.env)
            a = self.block(s.body)
            self.env = dict(saved)
            b = self.block(rest)
            self.env = saved
            return "if %s then %s else\n  %s" % (test, a, b)
        if isinstance(s, ast.If):
            if any(isinstance(x, ast.Return) for x in ast.walk(s)):
                raise Unsupported("return inside if")
            vs = self.assigned(s.body) + [v for v in self.assigned(s.orelse) if v not in self.assigned(s.body)]
            for v in vs:
                if v not in self.env:
                    # must be assigned on both paths with the same type
                    pass
            test, tt = self.expr(s.test)
            if tt != "bool":
                raise Unsupported("if test type")
            saved = dict(self.env)
            a = self.block(s.body, vs)
            env_a = self.env
            self.env = dict(saved)
            b = self.block(s.orelse, vs)
            env_b = self.env
            for v in vs:
                if env_a.get(v) != env_b.get(v):
                    raise Unsupported("branch types differ for " + v)
            self.env = dict(saved)
            for v in vs:
                self.env[v] = env_a[v]
            pat = vs[0] if len(vs) == 1 else "'(" + ", ".join(vs) + ")"
            return "let %s := (if %s then %s else %s) in\n  %s" % (pat, test, a, b, self.block(rest, result_vars))
        raise Unsupported(ast.dump(s))

    # ---- generator step blocks: value is (out, option state) ----------------------------
    def gblock(self, stmts, state, out="[]"):
        """translate statements of a generator loop body; `state` = list of state variable names"""
        if not stmts:
            st = state[0] if len(state) == 1 else "(" + ", ".join(state) + ")"
            return "(%s, Some %s)" % (out, st)
        s, rest = stmts[0], stmts[1:]
        if isinstance(s, ast.Expr) and isinstance(s.value, ast.Constant):
            return self.gblock(rest, state, out)
        if isinstance(s, ast.Expr) and isinstance(s.value, ast.Yield):
            g, t = self.expr(s.value.value)
            if t != "str":
                raise Unsupported("yield type")
            # bind at the point of the yield: later assignments may shadow the variables used
            self._fresh = getattr(self, "_fresh", 0) + 1
            name = "out__%d" % self._fresh
            val = "(%s ++ [%s])" % (out, g) if out != "[]" else "[%s]" % g
            return "let %s := %s in\n  %s" % (name, val, self.gblock(rest, state, name))
        if isinstance(s, ast.Return) and s.value is None:
            return "(%s, None)" % out
        if isinstance(s, ast.Assign) and len(s.targets) == 1 and isinstance(s.targets[0], ast.Name):
            g, t = self.expr(s.value)
            self.env[s.targets[0].id] = t
            return "let %s := %s in\n  %s" % (s.targets[0].id, g, self.gblock(rest, state, out))
        if isinstance(s, ast.If):
            if rest:
                raise Unsupported("statements after if in generator body")
            saved = dict(self.env)

            def then_k():
                e = dict(self.env)
                r = self.gblock(s.body, state, out)
                self.env = e
                return r

            def else_k():
                e = dict(self.env)
                r = self.gblock(s.orelse, state, out)
                self.env = e
                return r
            r = self.cond(s.test, then_k, else_k)
            self.env = saved
            return r
        raise Unsupported(ast.dump(s))


def find(tree, qual):
    node = tree
    for p in qual.split("."):
        try:
            node = next(n for n in node.body if isinstance(n, (ast.ClassDef, ast.FunctionDef)) and n.name == p)
        except StopIteration:
            raise Unsupported("cannot find " + qual)
    return node


COQ_TY = {"str": "str", "int": "Z", "bool": "bool", "optstr": "option str"}


def tr_function(src, qual, coqname, argtypes, rettype, self_attributes=False, allow_defaults=False):
    f = find(ast.parse(src), qual)
    args = [a.arg for a in f.args.args if a.arg not in ("self", "cls")]
    if f.args.vararg or f.args.kwarg or f.args.kwonlyargs or (f.args.defaults and not allow_defaults):
        raise Unsupported("signature of " + qual)
    if len(args) != len(argtypes):
        raise Unsupported("arity of " + qual)
    env = dict(zip(args, argtypes))
    binders = " ".join("(%s : %s)" % (a, COQ_TY[ty]) for a, ty in zip(args, argtypes))
    if self_attributes:
        env["self.attributes"] = "attrs"
        binders = "(self_attributes : list attr) " + binders
    t = Tr(env)
    return "Definition %s %s : %s :=\n  %s." % (coqname, binders, COQ_TY[rettype], t.block(f.body))


def tr_generator_loop(src, qual, coqname, argtypes, state):
    """`while COND: BODY` followed by a TAIL of `if x: yield x`-style statements.
    Emits <name>_step, <name>_loop (fuelled) ; state variables must be among the arguments."""
    f = find(ast.parse(src), qual)
    args = [a.arg for a in f.args.args if a.arg not in ("self", "cls")]
    if f.args.vararg or f.args.kwarg or f.args.kwonlyargs or f.args.defaults or len(args) != len(argtypes):
        raise Unsupported("signature of " + qual)
    body = [s for s in f.body if not (isinstance(s, ast.Expr) and isinstance(s.value, ast.Constant))]
    if not body or not isinstance(body[0], ast.While) or body[0].orelse:
        raise Unsupported("expected a while loop first in " + qual)
    loop, tail = body[0], body[1:]
    env = dict(zip(args, argtypes))
    if len(state) != 1:
        raise Unsupported("one state variable supported")
    sv = state[0]
    params = [a for a in args if a not in state]
    binders = " ".join("(%s : %s)" % (a, COQ_TY[env[a]]) for a in args)
    t = Tr(env)
    step = t.gblock(loop.body, state)
    t2 = Tr(env)
    cond, ct = t2.expr(loop.test)
    if ct != "bool":
        raise Unsupported("loop test type")
    # tail: only `if v: yield v` or `yield v`
    t3 = Tr(env)
    tl = t3.gblock(tail, state)
    out = []
    out.append("Definition %s_step %s : list str * option %s :=\n  %s." % (coqname, binders, COQ_TY[env[sv]], step))
    out.append("Definition %s_tail %s : list str * option %s :=\n  %s." % (coqname, binders, COQ_TY[env[sv]], tl))
    pargs = " ".join(args)
    rec_args = " ".join(("s'" if a == sv else a) for a in args)
    out.append(
        "Fixpoint %s_loop (fuel : nat) %s : option (list str) :=\n"
        "  match fuel with\n  | O => None\n  | S fuel' =>\n"
        "    if %s then\n"
        "      let '(out, nxt) := %s_step %s in\n"
        "      match nxt with\n"
        "      | Some s' => option_map (app out) (%s_loop fuel' %s)\n"
        "      | None => Some out\n      end\n"
        "    else Some (fst (%s_tail %s))\n  end."
        % (coqname, binders, cond, coqname, pargs, coqname, rec_args, coqname, pargs))
    return "\n".join(out)


# ======================================================================================================
# cases added for C13/C02 (namespace tables, declaration validator, fresh-prefix loop, escape tables)

def const_int(e):
    """integer constant expressions: literals, + - * ** of constants"""
    if isinstance(e, ast.Constant) and isinstance(e.value, int) and not isinstance(e.value, bool):
        return e.value
    if isinstance(e, ast.BinOp) and isinstance(e.op, (ast.Add, ast.Sub, ast.Mult, ast.Pow)):
        a, b = const_int(e.left), const_int(e.right)
        if isinstance(e.op, ast.Pow):
            if b < 0 or b > 64:
                raise Unsupported("exponent")
            return a ** b
        return {ast.Add: a + b, ast.Sub: a - b, ast.Mult: a * b}[type(e.op)]
    raise Unsupported("not an integer constant: " + ast.dump(e))


def module_assignments(src):
    """top-level `NAME = value` / `NAME: T = value` of a module -> {name: ast value}"""
    out = {}
    for n in ast.parse(src).body:
        if isinstance(n, ast.AnnAssign) and isinstance(n.target, ast.Name) and n.value is not None:
            out[n.target.id] = n.value
        elif isinstance(n, ast.Assign) and len(n.targets) == 1 and isinstance(n.targets[0], ast.Name):
            out[n.targets[0].id] = n.value
    return out


def str_mapping_table(e, consts):
    """`MappingProxyType({ "k": "v" | NAME, ... })` or a dict display -> [(key, gallina value)]
    `consts`: {python name: gallina name} for names allowed as values"""
    if isinstance(e, ast.Call) and isinstance(e.func, ast.Name) and e.func.id == "MappingProxyType" \
            and len(e.args) == 1 and not e.keywords:
        e = e.args[0]
    if not isinstance(e, ast.Dict):
        raise Unsupported("expected a dict display: " + ast.dump(e)[:200])
    out = []
    for k, v in zip(e.keys, e.values):
        if not (isinstance(k, ast.Constant) and isinstance(k.value, str)):
            raise Unsupported("table key")
        if isinstance(v, ast.Constant) and isinstance(v.value, str):
            g = lit(v.value)
        elif isinstance(v, ast.Name) and v.id in consts:
            g = consts[v.id]
        else:
            raise Unsupported("table value " + ast.dump(v))
        if k.value in [x for x, _ in out]:
            raise Unsupported("duplicate key in table")
        out.append((k.value, g))
    return out


def pair_table(e):
    """a tuple/list display of pairs of string constants -> [(a, b)]"""
    if not isinstance(e, (ast.Tuple, ast.List)):
        raise Unsupported("expected a tuple display")
    out = []
    for x in e.elts:
        if not (isinstance(x, ast.Tuple) and len(x.elts) == 2 and
                all(isinstance(y, ast.Constant) and isinstance(y.value, str) for y in x.elts)):
            raise Unsupported("expected pairs of string constants")
        out.append((x.elts[0].value, x.elts[1].value))
    return out


def tr_maketrans_comprehension(e, source_name, coq_source):
    """`str.maketrans({ord(k): f"..{v}.." for k, v in SOURCE [if k != "c"]})` over a table of
    (one-character string, string) pairs -> Gallina `list (char * str)` built from `coq_source`"""
    if not (isinstance(e, ast.Call) and isinstance(e.func, ast.Attribute) and e.func.attr == "maketrans"
            and isinstance(e.func.value, ast.Name) and e.func.value.id == "str" and len(e.args) == 1
            and not e.keywords and isinstance(e.args[0], ast.DictComp)):
        raise Unsupported("expected str.maketrans({...comprehension...})")
    dc = e.args[0]
    if len(dc.generators) != 1:
        raise Unsupported("one generator expected")
    g = dc.generators[0]
    if not (isinstance(g.target, ast.Tuple) and len(g.target.elts) == 2
            and all(isinstance(x, ast.Name) for x in g.target.elts)
            and isinstance(g.iter, ast.Name) and g.iter.id == source_name and not g.is_async):
        raise Unsupported("comprehension source")
    k, v = (x.id for x in g.target.elts)
    if not (isinstance(dc.key, ast.Call) and isinstance(dc.key.func, ast.Name) and dc.key.func.id == "ord"
            and len(dc.key.args) == 1 and isinstance(dc.key.args[0], ast.Name) and dc.key.args[0].id == k):
        raise Unsupported("comprehension key must be ord(k)")
    t = Tr({v: "str"})
    val, ty = t.expr(dc.value)
    if ty != "str":
        raise Unsupported("comprehension value")
    conds = []
    for c in g.ifs:
        if (isinstance(c, ast.Compare) and len(c.ops) == 1 and isinstance(c.ops[0], ast.NotEq)
                and isinstance(c.left, ast.Name) and c.left.id == k
                and Tr._onechar(c.comparators[0]) is not None):
            conds.append("negb (N.eqb %s %d%%N)" % (k, Tr._onechar(c.comparators[0])))
        else:
            raise Unsupported("comprehension condition " + ast.dump(c))
    body = "map (fun '(%s, %s) => (%s, %s)) " % (k, v, k, val)
    if conds:
        return body + "(filter (fun '(%s, %s) => (%s)%%bool) %s)" % (k, v, " && ".join(conds), coq_source)
    return body + coq_source


class GuardTr(Tr):
    """functions of the shape: guards that raise, `if x is None: x = CONST`, final `return`.
    Types: "str", "optstr" (str | None), "strs" (a collection of strings, only used with `in`).
    `tables`: {python name: (gallina, "strs")} for module constants usable on the right of `in`.
    `consts`: {python name: gallina of type str}.  Result type is `res str`."""

    def __init__(self, env, tables, consts, exns):
        super().__init__(env)
        self.tables, self.consts, self.exns = tables, consts, exns

    def gexpr(self, e):
        if isinstance(e, ast.Name) and e.id in self.consts and e.id not in self.env:
            return self.consts[e.id], "str"
        if isinstance(e, ast.Compare) and len(e.ops) == 1 and isinstance(e.ops[0], ast.Is) \
                and isinstance(e.comparators[0], ast.Constant) and e.comparators[0].value is None:
            g, t = self.gexpr(e.left)
            if t != "optstr":
                raise Unsupported("`is None` on a non-optional")
            return "(match %s with None => true | Some _ => false end)" % g, "bool"
        if isinstance(e, ast.Compare) and len(e.ops) == 1 and isinstance(e.ops[0], (ast.In, ast.NotIn)):
            g, t = self.gexpr(e.left)
            c = e.comparators[0]
            if isinstance(c, ast.Name) and c.id in self.tables:
                coll = self.tables[c.id]
            elif isinstance(c, ast.Name) and self.env.get(c.id) == "strs":
                coll = c.id
            elif isinstance(c, (ast.Set, ast.Tuple, ast.List)):
                items = [self.gexpr(x) for x in c.elts]
                if any(ty != "str" for _, ty in items):
                    raise Unsupported("collection display element")
                coll = "[" + "; ".join(x for x, _ in items) + "]"
            else:
                raise Unsupported("right side of `in`: " + ast.dump(c))
            fn = {"str": "py_in_str", "optstr": "py_in_optstr"}.get(t)
            if fn is None:
                raise Unsupported("left side of `in`")
            r = "(%s %s %s)" % (fn, g, coll)
            return ("(negb %s)" % r if isinstance(e.ops[0], ast.NotIn) else r), "bool"
        return self.expr(e)

    def gblock_(self, stmts):
        if not stmts:
            raise Unsupported("function falls off the end")
        s, rest = stmts[0], stmts[1:]
        if isinstance(s, ast.Expr) and isinstance(s.value, ast.Constant):
            return self.gblock_(rest)
        if isinstance(s, ast.Return) and s.value is not None:
            g, t = self.gexpr(s.value)
            if t != "str":
                raise Unsupported("return type")
            return "Ok %s" % g
        if isinstance(s, ast.If) and not s.orelse and len(s.body) == 1 and isinstance(s.body[0], ast.Raise):
            r = s.body[0]
            if not (isinstance(r.exc, ast.Call) and isinstance(r.exc.func, ast.Name) and r.exc.func.id in self.exns):
                raise Unsupported("raise form")
            g, t = self.gexpr(s.test)
            if t != "bool":
                raise Unsupported("guard type")
            return "if %s then %s else\n  %s" % (g, self.exns[r.exc.func.id], self.gblock_(rest))
        if isinstance(s, ast.If) and not s.orelse and len(s.body) == 1 and isinstance(s.body[0], ast.Assign) \
                and isinstance(s.test, ast.Compare) and isinstance(s.test.ops[0], ast.Is) \
                and isinstance(s.test.left, ast.Name) and isinstance(s.body[0].targets[0], ast.Name) \
                and s.body[0].targets[0].id == s.test.left.id and len(s.body[0].targets) == 1 \
                and isinstance(s.test.comparators[0], ast.Constant) and s.test.comparators[0].value is None:
            x = s.test.left.id
            if self.env.get(x) != "optstr":
                raise Unsupported("None-default on a non-optional")
            g, t = self.gexpr(s.body[0].value)
            if t != "str":
                raise Unsupported("None-default value")
            self.env[x] = "str"
            return "let %s := (match %s with None => %s | Some %s__v => %s__v end) in\n  %s" % (
                x, x, g, x, x, self.gblock_(rest))
        raise Unsupported(ast.dump(s)[:300])


GUARD_TY = {"str": "str", "optstr": "option str", "strs": "list str"}


def tr_guard_function(src, qual, coqname, argtypes, tables, consts, exns):
    f = find(ast.parse(src), qual)
    args = [a.arg for a in f.args.args if a.arg not in ("self", "cls")]
    if f.args.vararg or f.args.kwarg or f.args.kwonlyargs or f.args.defaults or len(args) != len(argtypes):
        raise Unsupported("signature of " + qual)
    t = GuardTr(dict(zip(args, argtypes)), tables, consts, exns)
    binders = " ".join("(%s : %s)" % (a, GUARD_TY[ty]) for a, ty in zip(args, argtypes))
    return "Definition %s %s : res str :=\n  %s." % (coqname, binders, t.gblock_(f.body))


def tr_fresh_name_loop(src, qual, coqname, dict_attr, taken_attr=None):
    """a method of exactly this shape (anything else is Unsupported):

        for i in range(BOUND):
            name = f"..{i}.."
            if name not in self.<dict_attr>.values() [and f"..{i}.." not in self.<taken_attr>]:
                self.<dict_attr>[<arg>] = name
                return
        else:
            raise NotImplementedError(...)

    Emits <coqname>_bound, <coqname>_name, [<coqname>_name2,] <coqname>_loop (the range loop with its bound as
    fuel) and <coqname> : [taken ->] dict -> key -> res dict.  `taken` stands for the keys of self.<taken_attr>."""
    f = find(ast.parse(src), qual)
    args = [a.arg for a in f.args.args if a.arg not in ("self", "cls")]
    body = [s for s in f.body if not (isinstance(s, ast.Expr) and isinstance(s.value, ast.Constant))]
    if len(args) != 1 or len(body) != 1 or not isinstance(body[0], ast.For):
        raise Unsupported("shape of " + qual)
    loop = body[0]
    if not (isinstance(loop.target, ast.Name) and isinstance(loop.iter, ast.Call) and isinstance(loop.iter.func, ast.Name)
            and loop.iter.func.id == "range" and len(loop.iter.args) == 1 and not loop.iter.keywords):
        raise Unsupported("loop header of " + qual)
    i = loop.target.id
    bound = const_int(loop.iter.args[0])
    if not (len(loop.orelse) == 1 and isinstance(loop.orelse[0], ast.Raise) and isinstance(loop.orelse[0].exc, ast.Call)
            and isinstance(loop.orelse[0].exc.func, ast.Name) and loop.orelse[0].exc.func.id == "NotImplementedError"):
        raise Unsupported("for-else of " + qual)
    lb = loop.body
    if not (len(lb) == 2 and isinstance(lb[0], ast.Assign) and len(lb[0].targets) == 1
            and isinstance(lb[0].targets[0], ast.Name) and isinstance(lb[0].value, ast.JoinedStr)
            and isinstance(lb[1], ast.If) and not lb[1].orelse):
        raise Unsupported("loop body of " + qual)
    name = lb[0].targets[0].id

    def counter_fstring(js):
        parts = []
        seen_i = False
        for v in js.values:
            if isinstance(v, ast.Constant) and isinstance(v.value, str):
                parts.append(lit(v.value))
            elif isinstance(v, ast.FormattedValue) and v.conversion == -1 and v.format_spec is None \
                    and isinstance(v.value, ast.Name) and v.value.id == i:
                parts.append("py_str_of_N %s" % i)
                seen_i = True
            else:
                raise Unsupported("f-string of " + qual)
        if not seen_i:
            raise Unsupported("generated name does not depend on the counter")
        return " ++ ".join(parts)
    name_expr = counter_fstring(lb[0].value)

    def is_attr(e, attr):
        return isinstance(e, ast.Attribute) and isinstance(e.value, ast.Name) and e.value.id == "self" and e.attr == attr

    def is_values_test(t):
        return (isinstance(t, ast.Compare) and len(t.ops) == 1 and isinstance(t.ops[0], ast.NotIn)
                and isinstance(t.left, ast.Name) and t.left.id == name
                and isinstance(t.comparators[0], ast.Call) and not t.comparators[0].args
                and isinstance(t.comparators[0].func, ast.Attribute) and t.comparators[0].func.attr == "values"
                and is_attr(t.comparators[0].func.value, dict_attr))
    test = lb[1].test
    name2_expr = None
    if is_values_test(test):
        pass
    elif (taken_attr is not None and isinstance(test, ast.BoolOp) and isinstance(test.op, ast.And) and len(test.values) == 2
          and is_values_test(test.values[0])):
        t2 = test.values[1]
        if not (isinstance(t2, ast.Compare) and len(t2.ops) == 1 and isinstance(t2.ops[0], ast.NotIn)
                and isinstance(t2.left, ast.JoinedStr) and is_attr(t2.comparators[0], taken_attr)):
            raise Unsupported("second loop test of " + qual)
        name2_expr = counter_fstring(t2.left)
    else:
        raise Unsupported("loop test of " + qual)
    ib = lb[1].body
    if not (len(ib) == 2 and isinstance(ib[0], ast.Assign) and len(ib[0].targets) == 1
            and isinstance(ib[0].targets[0], ast.Subscript) and is_attr(ib[0].targets[0].value, dict_attr)
            and isinstance(ib[0].targets[0].slice, ast.Name) and ib[0].targets[0].slice.id == args[0]
            and isinstance(ib[0].value, ast.Name) and ib[0].value.id == name
            and isinstance(ib[1], ast.Return) and ib[1].value is None):
        raise Unsupported("assignment in " + qual)
    c = coqname
    out = ["Definition %s_bound : N := %d%%N." % (c, bound),
           "Definition %s_name (%s : N) : str := (%s)." % (c, i, name_expr)]
    if name2_expr is None:
        out += [
            "Fixpoint %s_loop (fuel : nat) (%s : N) (values : list str) : option str :=" % (c, i),
            "  match fuel with",
            "  | O => None",
            "  | S fuel' => let %s := %s_name %s in" % (name, c, i),
            "      if negb (py_in_str %s values) then Some %s else %s_loop fuel' (N.succ %s) values" % (name, name, c, i),
            "  end.",
            "Definition %s (prefixes : list (str * str)) (%s : str) : res (list (str * str)) :=" % (c, args[0]),
            "  match %s_loop (N.to_nat %s_bound) 0%%N (dict_values prefixes) with" % (c, c)]
    else:
        out += [
            "Definition %s_name2 (%s : N) : str := (%s)." % (c, i, name2_expr),
            "Fixpoint %s_loop (fuel : nat) (%s : N) (values taken : list str) : option str :=" % (c, i),
            "  match fuel with",
            "  | O => None",
            "  | S fuel' => let %s := %s_name %s in" % (name, c, i),
            "      if (negb (py_in_str %s values) && negb (py_in_str (%s_name2 %s) taken))%%bool then Some %s" % (name, c, i, name),
            "      else %s_loop fuel' (N.succ %s) values taken" % (c, i),
            "  end.",
            "Definition %s (taken : list str) (prefixes : list (str * str)) (%s : str) : res (list (str * str)) :=" % (c, args[0]),
            "  match %s_loop (N.to_nat %s_bound) 0%%N (dict_values prefixes) taken with" % (c, c)]
    out += ["  | Some %s => Ok (dict_set %s %s prefixes)" % (name, args[0], name),
            "  | None => Crash OtherError   (* NotImplementedError *)",
            "  end."]
    return "\n".join(out)
