"""Fail-closed translation of a small fragment of Python (ast) to Gallina.

Supported: functions whose body is straight-line string/int/bool code (assignments, `+=`,
if/else that assign, return), and generator functions of the shape
`while COND: BODY ; TAIL` where BODY/TAIL yield values and BODY may `return`.
Anything else raises Unsupported, which the caller turns into a broken obligation.

Types: "str" (list N), "int" (Z), "bool".  String methods are mapped to the py_* primitives
of Base/PyStr.v.  The emitted text is deterministic so that unchanged sources give unchanged
.v files (and no rebuild).
"""
import ast


class Unsupported(Exception):
    pass


def lit(s):
    return "[" + "; ".join("%d%%N" % ord(c) for c in s) + "]"


STR_METHODS0 = {"strip": ("py_strip", "str"), "lstrip": ("py_lstrip", "str"),
                "rstrip": ("py_rstrip", "str"), "isspace": ("py_isspace", "bool")}
STR_METHODS1 = {"startswith": ("py_startswith", "bool"), "endswith": ("py_endswith", "bool")}
FUNCS = {"_crunch_whitespace": ("py_crunch_whitespace", ["str"], "str"),
         "bool": ("py_bool_str", ["str"], "bool"),
         "len": ("py_len", ["str"], "int")}


class Tr:
    def __init__(self, env):
        self.env = dict(env)  # name -> type

    # ---- expressions -------------------------------------------------------------------
    def expr(self, e):
        """returns (gallina, type)"""
        if isinstance(e, ast.Name):
            if e.id not in self.env:
                raise Unsupported("unknown name " + e.id)
            return e.id, self.env[e.id]
        if isinstance(e, ast.Constant):
            if isinstance(e.value, bool):
                return ("true" if e.value else "false"), "bool"
            if isinstance(e.value, str):
                return lit(e.value), "str"
            if isinstance(e.value, int):
                return "(%d)%%Z" % e.value, "int"
            raise Unsupported(ast.dump(e))
        if isinstance(e, ast.UnaryOp) and isinstance(e.op, ast.USub) and isinstance(e.operand, ast.Constant) \
                and isinstance(e.operand.value, int):
            return "(-%d)%%Z" % e.operand.value, "int"
        if isinstance(e, ast.JoinedStr):
            parts = []
            for v in e.values:
                if isinstance(v, ast.Constant):
                    parts.append(lit(v.value))
                elif isinstance(v, ast.FormattedValue) and v.conversion == -1 and v.format_spec is None:
                    g, t = self.expr(v.value)
                    if t != "str":
                        raise Unsupported("non-str in f-string")
                    parts.append(g)
                else:
                    raise Unsupported(ast.dump(v))
            return "(" + " ++ ".join(parts) + ")", "str"
        if isinstance(e, ast.BoolOp):
            gs = [self.expr(v) for v in e.values]
            if any(t != "bool" for _, t in gs):
                raise Unsupported("non-bool operand of and/or")
            op = " && " if isinstance(e.op, ast.And) else " || "
            return "(" + op.join(g for g, _ in gs) + ")%bool", "bool"
        if isinstance(e, ast.UnaryOp) and isinstance(e.op, ast.Not):
            g, t = self.expr(e.operand)
            if t != "bool":
                raise Unsupported("not on non-bool")
            return "(negb %s)" % g, "bool"
        if isinstance(e, ast.BinOp) and isinstance(e.op, (ast.Add, ast.Sub)):
            (a, ta), (b, tb) = self.expr(e.left), self.expr(e.right)
            if ta == tb == "int":
                return "(%s %s %s)%%Z" % (a, "+" if isinstance(e.op, ast.Add) else "-", b), "int"
            if ta == tb == "str" and isinstance(e.op, ast.Add):
                return "(%s ++ %s)" % (a, b), "str"
            raise Unsupported("binop types")
        if isinstance(e, ast.Compare) and len(e.ops) == 1:
            (a, ta), (b, tb) = self.expr(e.left), self.expr(e.comparators[0])
            op = e.ops[0]
            if ta == tb == "int":
                sym = {ast.Gt: ">?", ast.Lt: "<?", ast.GtE: ">=?", ast.LtE: "<=?", ast.Eq: "=?"}.get(type(op))
                if sym is None:
                    raise Unsupported("int comparison")
                return "(%s %s %s)%%Z" % (a, sym, b), "bool"
            if ta == tb == "str" and isinstance(op, ast.Eq):
                return "(str_eqb %s %s)" % (a, b), "bool"
            if ta == tb == "str" and isinstance(op, ast.In):
                return "(py_contains %s %s)" % (b, a), "bool"
            raise Unsupported("comparison " + ast.dump(e))
        if isinstance(e, ast.Subscript) and isinstance(e.slice, ast.Slice) and e.slice.step is None:
            s, ts = self.expr(e.value)
            if ts != "str":
                raise Unsupported("slice of non-str")
            lo, hi = e.slice.lower, e.slice.upper
            if lo is None and hi is not None:
                g, t = self.expr(hi)
                if t != "int":
                    raise Unsupported("slice bound")
                return "(py_slice_to %s %s)" % (s, g), "str"
            if hi is None and lo is not None:
                g, t = self.expr(lo)
                if t != "int":
                    raise Unsupported("slice bound")
                return "(py_slice_from %s %s)" % (s, g), "str"
            raise Unsupported("slice form")
        if isinstance(e, ast.Call) and not e.keywords:
            f = e.func
            if isinstance(f, ast.Attribute):
                recv, tr = self.expr(f.value)
                if tr != "str":
                    raise Unsupported("method on non-str")
                if f.attr in STR_METHODS0 and len(e.args) == 0:
                    n, t = STR_METHODS0[f.attr]
                    return "(%s %s)" % (n, recv), t
                if f.attr in STR_METHODS1 and len(e.args) == 1:
                    n, t = STR_METHODS1[f.attr]
                    a, ta = self.expr(e.args[0])
                    if ta != "str":
                        raise Unsupported("method arg")
                    return "(%s %s %s)" % (n, recv, a), t
                if f.attr == "rfind" and len(e.args) == 3 and self._onechar(e.args[0]) is not None \
                        and isinstance(e.args[1], ast.Constant) and e.args[1].value == 0:
                    g, t = self.expr(e.args[2])
                    if t != "int":
                        raise Unsupported("rfind stop")
                    return "(py_rfind1 %s %d%%N %s)" % (recv, self._onechar(e.args[0]), g), "int"
                if f.attr == "find" and len(e.args) == 2 and self._onechar(e.args[0]) is not None:
                    g, t = self.expr(e.args[1])
                    if t != "int":
                        raise Unsupported("find start")
                    return "(py_find1 %s %d%%N %s)" % (recv, self._onechar(e.args[0]), g), "int"
            if isinstance(f, ast.Name) and f.id in FUNCS:
                n, ats, rt = FUNCS[f.id]
                if len(e.args) != len(ats):
                    raise Unsupported("arity")
                gs = [self.expr(a) for a in e.args]
                if [t for _, t in gs] != ats:
                    raise Unsupported("argument types of " + f.id)
                return "(%s %s)" % (n, " ".join(g for g, _ in gs)), rt
        raise Unsupported(ast.dump(e))

    @staticmethod
    def _onechar(e):
        if isinstance(e, ast.Constant) and isinstance(e.value, str) and len(e.value) == 1:
            return ord(e.value)
        return None

    # ---- conditions with walrus, turned into nested ifs ---------------------------------
    def cond(self, test, then_k, else_k):
        """then_k/else_k: thunks returning gallina under the current env"""
        if isinstance(test, ast.BoolOp) and isinstance(test.op, ast.Or):
            def chain(vals):
                if len(vals) == 1:
                    return self.cond(vals[0], then_k, else_k)
                return self.cond(vals[0], then_k, lambda: chain(vals[1:]))
            return chain(test.values)
        if isinstance(test, ast.BoolOp) and isinstance(test.op, ast.And) and self._has_walrus(test):
            def chain(vals):
                if len(vals) == 1:
                    return self.cond(vals[0], then_k, else_k)
                return self.cond(vals[0], lambda: chain(vals[1:]), else_k)
            return chain(test.values)
        if isinstance(test, ast.Compare) and isinstance(test.left, ast.NamedExpr):
            ne = test.left
            g, t = self.expr(ne.value)
            saved = dict(self.env)
            self.env[ne.target.id] = t
            new = ast.Compare(left=ast.Name(id=ne.target.id, ctx=ast.Load()), ops=test.ops,
                              comparators=test.comparators)
            body = self.cond(new, then_k, else_k)
            self.env = saved
            return "let %s := %s in\n  %s" % (ne.target.id, g, body)
        if self._has_walrus(test):
            raise Unsupported("walrus form " + ast.dump(test))
        g, t = self.expr(test)
        if t == "str":
            g, t = "(py_bool_str %s)" % g, "bool"
        if t != "bool":
            raise Unsupported("condition type")
        return "if %s then %s else %s" % (g, then_k(), else_k())

    @staticmethod
    def _has_walrus(e):
        return any(isinstance(x, ast.NamedExpr) for x in ast.walk(e))

    # ---- straight-line blocks -----------------------------------------------------------
    def assigned(self, stmts):
        out = []
        for s in stmts:
            if isinstance(s, ast.Assign) and len(s.targets) == 1 and isinstance(s.targets[0], ast.Name):
                out.append(s.targets[0].id)
            elif isinstance(s, ast.AugAssign) and isinstance(s.target, ast.Name):
                out.append(s.target.id)
            elif isinstance(s, ast.If):
                out += self.assigned(s.body) + self.assigned(s.orelse)
            elif isinstance(s, (ast.Return, ast.Expr)):
                pass
            else:
                raise Unsupported(ast.dump(s))
        return list(dict.fromkeys(out))

    def block(self, stmts, result_vars=None):
        if not stmts:
            if result_vars is None:
                raise Unsupported("function falls off the end")
            return "(" + ", ".join(result_vars) + ")" if len(result_vars) != 1 else result_vars[0]
        s, rest = stmts[0], stmts[1:]
        if isinstance(s, ast.Expr) and isinstance(s.value, ast.Constant):
            return self.block(rest, result_vars)
        if isinstance(s, ast.Return):
            if result_vars is not None:
                raise Unsupported("return inside branch")
            g, _ = self.expr(s.value)
            return g
        if isinstance(s, ast.Assign) and len(s.targets) == 1 and isinstance(s.targets[0], ast.Name):
            g, t = self.expr(s.value)
            self.env[s.targets[0].id] = t
            return "let %s := %s in\n  %s" % (s.targets[0].id, g, self.block(rest, result_vars))
        if isinstance(s, ast.AugAssign) and isinstance(s.op, ast.Add) and isinstance(s.target, ast.Name):
            g, t = self.expr(ast.BinOp(left=ast.Name(id=s.target.id, ctx=ast.Load()), op=ast.Add(), right=s.value))
            return "let %s := %s in\n  %s" % (s.target.id, g, self.block(rest, result_vars))
        if isinstance(s, ast.If):
            if any(isinstance(x, ast.Return) for x in ast.walk(s)):
                raise Unsupported("return inside if")
            vs = self.assigned(s.body) + [v for v in self.assigned(s.orelse) if v not in self.assigned(s.body)]
            for v in vs:
                if v not in self.env:
                    # must be assigned on both paths with the same type
                    pass
            test, tt = self.expr(s.test)
            if tt != "bool":
                raise Unsupported("if test type")
            saved = dict(self.env)
            a = self.block(s.body, vs)
            env_a = self.env
            self.env = dict(saved)
            b = self.block(s.orelse, vs)
            env_b = self.env
            for v in vs:
                if env_a.get(v) != env_b.get(v):
                    raise Unsupported("branch types differ for " + v)
            self.env = dict(saved)
            for v in vs:
                self.env[v] = env_a[v]
            pat = vs[0] if len(vs) == 1 else "'(" + ", ".join(vs) + ")"
            return "let %s := (if %s then %s else %s) in\n  %s" % (pat, test, a, b, self.block(rest, result_vars))
        raise Unsupported(ast.dump(s))

    # ---- generator step blocks: value is (out, option state) ----------------------------
    def gblock(self, stmts, state, out="[]"):
        """translate statements of a generator loop body; `state` = list of state variable names"""
        if not stmts:
            st = state[0] if len(state) == 1 else "(" + ", ".join(state) + ")"
            return "(%s, Some %s)" % (out, st)
        s, rest = stmts[0], stmts[1:]
        if isinstance(s, ast.Expr) and isinstance(s.value, ast.Constant):
            return self.gblock(rest, state, out)
        if isinstance(s, ast.Expr) and isinstance(s.value, ast.Yield):
            g, t = self.expr(s.value.value)
            if t != "str":
                raise Unsupported("yield type")
            # bind at the point of the yield: later assignments may shadow the variables used
            self._fresh = getattr(self, "_fresh", 0) + 1
            name = "out__%d" % self._fresh
            val = "(%s ++ [%s])" % (out, g) if out != "[]" else "[%s]" % g
            return "let %s := %s in\n  %s" % (name, val, self.gblock(rest, state, name))
        if isinstance(s, ast.Return) and s.value is None:
            return "(%s, None)" % out
        if isinstance(s, ast.Assign) and len(s.targets) == 1 and isinstance(s.targets[0], ast.Name):
            g, t = self.expr(s.value)
            self.env[s.targets[0].id] = t
            return "let %s := %s in\n  %s" % (s.targets[0].id, g, self.gblock(rest, state, out))
        if isinstance(s, ast.If):
            if rest:
                raise Unsupported("statements after if in generator body")
            saved = dict(self.env)

            def then_k():
                e = dict(self.env)
                r = self.gblock(s.body, state, out)
                self.env = e
                return r

            def else_k():
                e = dict(self.env)
                r = self.gblock(s.orelse, state, out)
                self.env = e
                return r
            r = self.cond(s.test, then_k, else_k)
            self.env = saved
            return r
        raise Unsupported(ast.dump(s))


def find(tree, qual):
    node = tree
    for p in qual.split("."):
        try:
            node = next(n for n in node.body if isinstance(n, (ast.ClassDef, ast.FunctionDef)) and n.name == p)
        except StopIteration:
            raise Unsupported("cannot find " + qual)
    return node


COQ_TY = {"str": "str", "int": "Z", "bool": "bool"}


def tr_function(src, qual, coqname, argtypes, rettype):
    f = find(ast.parse(src), qual)
    args = [a.arg for a in f.args.args if a.arg not in ("self", "cls")]
    if f.args.vararg or f.args.kwarg or f.args.kwonlyargs or f.args.defaults:
        raise Unsupported("signature of " + qual)
    if len(args) != len(argtypes):
        raise Unsupported("arity of " + qual)
    t = Tr(dict(zip(args, argtypes)))
    binders = " ".join("(%s : %s)" % (a, COQ_TY[ty]) for a, ty in zip(args, argtypes))
    return "Definition %s %s : %s :=\n  %s." % (coqname, binders, COQ_TY[rettype], t.block(f.body))


def tr_generator_loop(src, qual, coqname, argtypes, state):
    """`while COND: BODY` followed by a TAIL of `if x: yield x`-style statements.
    Emits <name>_step, <name>_loop (fuelled) ; state variables must be among the arguments."""
    f = find(ast.parse(src), qual)
    args = [a.arg for a in f.args.args if a.arg not in ("self", "cls")]
    if f.args.vararg or f.args.kwarg or f.args.kwonlyargs or f.args.defaults or len(args) != len(argtypes):
        raise Unsupported("signature of " + qual)
    body = [s for s in f.body if not (isinstance(s, ast.Expr) and isinstance(s.value, ast.Constant))]
    if not body or not isinstance(body[0], ast.While) or body[0].orelse:
        raise Unsupported("expected a while loop first in " + qual)
    loop, tail = body[0], body[1:]
    env = dict(zip(args, argtypes))
    if len(state) != 1:
        raise Unsupported("one state variable supported")
    sv = state[0]
    params = [a for a in args if a not in state]
    binders = " ".join("(%s : %s)" % (a, COQ_TY[env[a]]) for a in args)
    t = Tr(env)
    step = t.gblock(loop.body, state)
    t2 = Tr(env)
    cond, ct = t2.expr(loop.test)
    if ct != "bool":
        raise Unsupported("loop test type")
    # tail: only `if v: yield v` or `yield v`
    t3 = Tr(env)
    tl = t3.gblock(tail, state)
    out = []
    out.append("Definition %s_step %s : list str * option %s :=\n  %s." % (coqname, binders, COQ_TY[env[sv]], step))
    out.append("Definition %s_tail %s : list str * option %s :=\n  %s." % (coqname, binders, COQ_TY[env[sv]], tl))
    pargs = " ".join(args)
    rec_args = " ".join(("s'" if a == sv else a) for a in args)
    out.append(
        "Fixpoint %s_loop (fuel : nat) %s : option (list str) :=\n"
        "  match fuel with\n  | O => None\n  | S fuel' =>\n"
        "    if %s then\n"
        "      let '(out, nxt) := %s_step %s in\n"
        "      match nxt with\n"
        "      | Some s' => option_map (app out) (%s_loop fuel' %s)\n"
        "      | None => Some out\n      end\n"
        "    else Some (fst (%s_tail %s))\n  end."
        % (coqname, binders, cond, coqname, pargs, coqname, rec_args, coqname, pargs))
    return "\n".join(out)
