"""Generated definitions for C11 (attributes): `deconstruct_clark_notation` of _delb/names.py.

The function is translated statement by statement into a Gallina function with result type
`res (option str * str)`; the one partial operation it contains (unpacking the result of
`str.split(sep, maxsplit=1)` into two names) becomes an explicit `Crash ValueError` branch.
Expressions go through py2coq.Tr.expr; the statement forms accepted here are exactly

    if <bool expr>: <block> else: <block>            (both blocks must end in `return`)
    a, b = <str expr>.split(<one-char constant>, maxsplit=1)
    return <expr>, <expr>                            (str | None first component, str second)

anything else raises py2coq.Unsupported (fail closed)."""
import ast
import os

import py2coq
from py2coq import Unsupported

REPO = os.environ.get("DELB_REPO", "/repo")


def _is_doc(s):
    return isinstance(s, ast.Expr) and isinstance(s.value, ast.Constant) and isinstance(s.value.value, str)


class PairTr:
    """blocks whose value is `res (option str * str)`"""

    def __init__(self, env):
        self.tr = py2coq.Tr(env)

    def opt_str(self, e):
        """expression of type `str | None` -> Gallina of type option str"""
        if isinstance(e, ast.Constant) and e.value is None:
            return "None"
        g, t = self.tr.expr(e)
        if t == "str":
            return "(Some %s)" % g
        if t == "optstr":
            return g
        raise Unsupported("first component of the returned pair has type " + t)

    def block(self, stmts):
        stmts = [s for s in stmts if not _is_doc(s)]
        if not stmts:
            raise Unsupported("block falls off the end without return")
        s, rest = stmts[0], stmts[1:]
        if isinstance(s, ast.Return):
            if rest:
                raise Unsupported("statements after return")
            v = s.value
            if not (isinstance(v, ast.Tuple) and len(v.elts) == 2):
                raise Unsupported("return value is not a pair")
            first = self.opt_str(v.elts[0])
            g, t = self.tr.expr(v.elts[1])
            if t != "str":
                raise Unsupported("second component of the returned pair has type " + t)
            return "Ok (%s, %s)" % (first, g)
        if isinstance(s, ast.If):
            if rest:
                raise Unsupported("statements after if/else")
            g, t = self.tr.expr(s.test)
            if t != "bool":
                raise Unsupported("if test type")
            saved = dict(self.tr.env)
            a = self.block(s.body)
            self.tr.env = dict(saved)
            b = self.block(s.orelse)
            self.tr.env = saved
            return "if %s then\n    %s\n  else\n    %s" % (g, a, b)
        if isinstance(s, ast.Assign) and len(s.targets) == 1 and isinstance(s.targets[0], ast.Tuple):
            tgt = s.targets[0].elts
            if not (len(tgt) == 2 and all(isinstance(x, ast.Name) for x in tgt) and tgt[0].id != tgt[1].id):
                raise Unsupported("unpacking target")
            c = s.value
            if not (isinstance(c, ast.Call) and isinstance(c.func, ast.Attribute) and c.func.attr == "split"
                    and len(c.args) == 1 and py2coq.Tr._onechar(c.args[0]) is not None
                    and len(c.keywords) == 1 and c.keywords[0].arg == "maxsplit"
                    and isinstance(c.keywords[0].value, ast.Constant) and c.keywords[0].value.value == 1
                    and not isinstance(c.keywords[0].value.value, bool)):
                raise Unsupported("unpacked value is not <str>.split(<char>, maxsplit=1): " + ast.dump(c)[:200])
            recv, t = self.tr.expr(c.func.value)
            if t != "str":
                raise Unsupported("split on non-str")
            a, b = tgt[0].id, tgt[1].id
            self.tr.env[a] = "str"
            self.tr.env[b] = "str"
            body = self.block(rest)
            return ("match py_split1 %s %d%%N with\n    | Some (%s, %s) => %s\n    | None => Crash ValueError\n    end"
                    % (recv, py2coq.Tr._onechar(c.args[0]), a, b, body))
        raise Unsupported(ast.dump(s)[:300])


def gen_attr():
    with open(os.path.join(REPO, "_delb", "names.py")) as f:
        src = f.read()
    fn = py2coq.find(ast.parse(src), "deconstruct_clark_notation")
    if not isinstance(fn, ast.FunctionDef) or fn.decorator_list:
        raise Unsupported("deconstruct_clark_notation is not a plain function")
    a = fn.args
    if a.vararg or a.kwarg or a.kwonlyargs or a.posonlyargs or [x.arg for x in a.args] != ["name", "null"]:
        raise Unsupported("signature of deconstruct_clark_notation")
    if len(a.defaults) != 1 or not isinstance(a.defaults[0], ast.Constant):
        raise Unsupported("default of `null`")
    d = a.defaults[0].value
    if d is None:
        default = "None"
    elif isinstance(d, str):
        default = "(Some %s)" % py2coq.lit(d)
    else:
        raise Unsupported("default of `null`")
    body = PairTr({"name": "str", "null": "optstr"}).block(fn.body)
    out = "From Delb.Base Require Import PyStr PySplit.\n"
    out += ("Definition deconstruct_clark_notation (name : str) (null : option str) : res (option str * str) :=\n  %s.\n"
            % body)
    out += "Definition deconstruct_clark_notation_null_default : option str := %s.\n" % default
    return out


GENERATORS = {
    "GenAttr.v": ("_delb/names.py deconstruct_clark_notation", gen_attr),
}
