"""Generated definitions for C11 (attributes): `deconstruct_clark_notation` of _delb/names.py.

The function is translated statement by statement into a Gallina function with result type
`res (option str * str)`; the one partial operation it contains (unpacking the result of
`str.split(sep, maxsplit=1)` into two names) becomes an explicit `Crash ValueError` branch.
Expressions go through py2coq.Tr.expr; the statement forms accepted here are exactly

    if <bool expr>: <block> else: <block>            (both blocks must end in `return`)
    a, b = <str expr>.split(<one-char constant>, maxsplit=1)
    return <expr>, <expr>                            (str | None first component, str second)

anything else raises py2coq.Unsupported (fail closed)."""
import ast
import os

import py2coq
from py2coq import Unsupported

REPO = os.environ.get("DELB_REPO", "/repo")


def _is_doc(s):
    return isinstance(s, ast.Expr) and isinstance(s.value, ast.Constant) and isinstance(s.value.value, str)


class PairTr:
    """blocks whose value is `res (option str * str)`"""

    def __init__(self, env):
        self.tr = py2coq.Tr(env)

    def opt_str(self, e):
        """expression of type `str | None` -> Gallina of type option str"""
        if isinstance(e, ast.Constant) and e.value is None:
            return "None"
        g, t = self.tr.expr(e)
        if t == "str":
            return "(Some %s)" % g
        if t == "optstr":
            return g
        raise Unsupported("first component of the returned pair has type " + t)

    def block(self, stmts):
        stmts = [s for s in stmts if not _is_doc(s)]
        if not stmts:
            raise Unsupported("block falls off the end without return")
        s, rest = stmts[0], stmts[1:]
        if isinstance(s, ast.Return):
            if rest:
                raise Unsupported("statements after return")
            v = s.value
            if not (isinstance(v, ast.Tuple) and len(v.elts) == 2):
                raise Unsupported("return value is not a pair")
            first = self.opt_str(v.elts[0])
            g, t = self.tr.expr(v.elts[1])
            if t != "str":
                raise Unsupported("second component of the returned pair has type " + t)
            return "Ok (%s, %s)" % (first, g)
        if isinstance(s, ast.If):
            if rest:
                raise Unsupported("statements after if/else")
            g, t = self.tr.expr(s.test)
            if t != "bool":
                raise Unsupported("if test type")
            saved = dict(self.tr.env)
            a = self.block(s.body)
            self.tr.env = dict(saved)
            b = self.block(s.orelse)
            self.tr.env = saved
            return "if %s then\n    %s\n  else\n    %s" % (g, a, b)
        if isinstance(s, ast.Assign) and len(s.targets) == 1 and isinstance(s.targets[0], ast.Tuple):
            tgt = s.targets[0].elts
            if not (len(tgt) == 2 and all(isinstance(x, ast.Name) for x in tgt) and tgt[0].id != tgt[1].id):
                raise Unsupported("unpacking target")
            c = s.value
            if not (isinstance(c, ast.Call) and isinstance(c.func, ast.Attribute) and c.func.attr == "split"
                    and len(c.args) == 1 and py2coq.Tr._onechar(c.args[0]) is not None
                    and len(c.keywords) == 1 and c.keywords[0].arg == "maxsplit"
                    and isinstance(c.keywords[0].value, ast.Constant) and c.keywords[0].value.value == 1
                    and not isinstance(c.keywords[0].value.value, bool)):
                raise Unsupported("unpacked value is not <str>.split(<char>, maxsplit=1): " + ast.dump(c)[:200])
            recv, t = self.tr.expr(c.func.value)
            if t != "str":
                raise Unsupported("split on non-str")
            a, b = tgt[0].id, tgt[1].id
            self.tr.env[a] = "str"
            self.tr.env[b] = "str"
            body = self.block(rest)
            return ("match py_split1 %s %d%%N with\n    | Some (%s, %s) => %s\n    | None => Crash ValueError\n    end"
                    % (recv, py2coq.Tr._onechar(c.args[0]), a, b, body))
        raise Unsupported(ast.dump(s)[:300])


def gen_attr():
    with open(os.path.join(REPO, "_delb", "names.py")) as f:
        src = f.read()
    fn = py2coq.find(ast.parse(src), "deconstruct_clark_notation")
    if not isinstance(fn, ast.FunctionDef) or fn.decorator_list:
        raise Unsupported("deconstruct_clark_notation is not a plain function")
    a = fn.args
    if a.vararg or a.kwarg or a.kwonlyargs or a.posonlyargs or [x.arg for x in a.args] != ["name", "null"]:
        raise Unsupported("signature of deconstruct_clark_notation")
    if len(a.defaults) != 1 or not isinstance(a.defaults[0], ast.Constant):
        raise Unsupported("default of `null`")
    d = a.defaults[0].value
    if d is None:
        default = "None"
    elif isinstance(d, str):
        default = "(Some %s)" % py2coq.lit(d)
    else:
        raise Unsupported("default of `null`")
    body = PairTr({"name": "str", "null": "optstr"}).block(fn.body)
    out = "From Delb.Base Require Import PyStr PySplit.\n"
    out += ("Definition deconstruct_clark_notation (name : str) (null : option str) : res (option str * str) :=\n  %s.\n"
            % body)
    out += "Definition deconstruct_clark_notation_null_default : option str := %s.\n" % default
    return out


class KeyTr:
    """TagAttributes._etree_key: statement forms accepted are exactly

        a, b = <pair argument>
        x = self._node._etree_obj.nsmap.get(None)      (becomes the parameter nsmap_default : option str)
        if <test>: <block> [elif/else ...]              (every block ends in `return <str expr>`)

    expressions: names, f-strings over str / optional str, `<str> in / not in self._etree_attrib`
    (membership among the keys of the parameter etree_attrib), == / != between str and optional str,
    and / or / not with python truthiness of str and optional str.  Anything else: Unsupported."""

    def __init__(self, env):
        self.env = dict(env)

    @staticmethod
    def _is_attrib(e):
        return (isinstance(e, ast.Attribute) and e.attr == "_etree_attrib"
                and isinstance(e.value, ast.Name) and e.value.id == "self")

    @staticmethod
    def _is_default_ns(e):
        # self._node._etree_obj.nsmap.get(None)
        if not (isinstance(e, ast.Call) and not e.keywords and len(e.args) == 1
                and isinstance(e.args[0], ast.Constant) and e.args[0].value is None):
            return False
        f = e.func
        chain = []
        while isinstance(f, ast.Attribute):
            chain.append(f.attr)
            f = f.value
        return isinstance(f, ast.Name) and f.id == "self" and chain == ["get", "nsmap", "_etree_obj", "_node"]

    def expr(self, e):
        if isinstance(e, ast.Name):
            if e.id not in self.env:
                raise Unsupported("unknown name " + e.id)
            return e.id, self.env[e.id]
        if isinstance(e, ast.JoinedStr):
            parts = []
            for v in e.values:
                if isinstance(v, ast.Constant) and isinstance(v.value, str):
                    parts.append(py2coq.lit(v.value))
                elif isinstance(v, ast.FormattedValue) and v.conversion == -1 and v.format_spec is None:
                    g, t = self.expr(v.value)
                    if t == "str":
                        parts.append(g)
                    elif t == "optstr":
                        parts.append("(py_str_optstr %s)" % g)
                    else:
                        raise Unsupported("f-string value of type " + t)
                else:
                    raise Unsupported(ast.dump(v)[:200])
            return "(" + " ++ ".join(parts) + ")", "str"
        if isinstance(e, ast.Compare) and len(e.ops) == 1:
            op, left, right = e.ops[0], e.left, e.comparators[0]
            if isinstance(op, (ast.In, ast.NotIn)) and self._is_attrib(right):
                g, t = self.expr(left)
                if t != "str":
                    raise Unsupported("membership of a non-str in _etree_attrib")
                r = "(py_in_keys %s etree_attrib)" % g
                return (r if isinstance(op, ast.In) else "(negb %s)" % r), "bool"
            if isinstance(op, (ast.Eq, ast.NotEq)):
                (a, ta), (b, tb) = self.expr(left), self.expr(right)
                opt = lambda g, t: g if t == "optstr" else "(Some %s)" % g  # noqa: E731
                if {ta, tb} <= {"str", "optstr"}:
                    r = "(str_eqb %s %s)" % (a, b) if ta == tb == "str" else "(optstr_eqb %s %s)" % (opt(a, ta), opt(b, tb))
                    return (r if isinstance(op, ast.Eq) else "(negb %s)" % r), "bool"
            raise Unsupported("comparison " + ast.dump(e)[:200])
        if isinstance(e, ast.BoolOp):
            op = " && " if isinstance(e.op, ast.And) else " || "
            return "(" + op.join(self.truth(v) for v in e.values) + ")%bool", "bool"
        if isinstance(e, ast.UnaryOp) and isinstance(e.op, ast.Not):
            return "(negb %s)" % self.truth(e.operand), "bool"
        raise Unsupported(ast.dump(e)[:300])

    def truth(self, e):
        g, t = self.expr(e)
        if t == "bool":
            return g
        if t == "str":
            return "(py_bool_str %s)" % g
        if t == "optstr":
            return "(py_bool_optstr %s)" % g
        raise Unsupported("truth value of " + t)

    def block(self, stmts):
        stmts = [s for s in stmts if not _is_doc(s)]
        if not stmts:
            raise Unsupported("block falls off the end without return")
        s, rest = stmts[0], stmts[1:]
        if isinstance(s, ast.Return):
            if rest or s.value is None:
                raise Unsupported("return form")
            g, t = self.expr(s.value)
            if t != "str":
                raise Unsupported("returned value of type " + t)
            return g
        if isinstance(s, ast.If):
            if rest:
                raise Unsupported("statements after if/else")
            if not s.orelse:
                raise Unsupported("if without else")
            test = self.truth(s.test)
            saved = dict(self.env)
            a = self.block(s.body)
            self.env = dict(saved)
            b = self.block(s.orelse)
            self.env = saved
            return "if %s\n  then %s\n  else %s" % (test, a, b)
        if isinstance(s, ast.Assign) and len(s.targets) == 1:
            tgt, v = s.targets[0], s.value
            if isinstance(tgt, ast.Tuple) and len(tgt.elts) == 2 and all(isinstance(x, ast.Name) for x in tgt.elts) \
                    and isinstance(v, ast.Name) and self.env.get(v.id) == "pair" and tgt.elts[0].id != tgt.elts[1].id:
                a, b = tgt.elts[0].id, tgt.elts[1].id
                self.env[a] = self.env[b] = "str"
                return "let '(%s, %s) := %s in\n  %s" % (a, b, v.id, self.block(rest))
            if isinstance(tgt, ast.Name) and self._is_default_ns(v):
                self.env[tgt.id] = "optstr"
                return "let %s := nsmap_default in\n  %s" % (tgt.id, self.block(rest))
        raise Unsupported(ast.dump(s)[:300])


def gen_etree_key():
    with open(os.path.join(REPO, "_delb", "nodes.py")) as f:
        src = f.read()
    fn = py2coq.find(ast.parse(src), "TagAttributes._etree_key")
    if not isinstance(fn, ast.FunctionDef) or fn.decorator_list:
        raise Unsupported("TagAttributes._etree_key is not a plain method")
    a = fn.args
    if a.vararg or a.kwarg or a.kwonlyargs or a.posonlyargs or a.defaults or [x.arg for x in a.args] != ["self", "item"]:
        raise Unsupported("signature of TagAttributes._etree_key")
    body = KeyTr({"item": "pair"}).block(fn.body)
    return ("From Delb.Base Require Import PyStr PySplit.\n"
            "(* nsmap_default = self._node._etree_obj.nsmap.get(None); etree_attrib = self._etree_attrib (its keys are used) *)\n"
            "Definition etree_key_gen (nsmap_default : option str) (etree_attrib : list (str * str)) (item : str * str) : str :=\n"
            "  %s.\n" % body)


GENERATORS = {
    "GenAttr.v": ("_delb/names.py deconstruct_clark_notation", gen_attr),
    "GenAttrKey.v": ("_delb/nodes.py TagAttributes._etree_key", gen_etree_key),
}
