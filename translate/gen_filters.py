"""C08: structural summary of every use of `altered_default_filters` in the library, from /repo's AST.

Gen/GenFilterFx.v lists, for every function of /repo/_delb and /repo/delb that uses `altered_default_filters` (as a
`with` item or as a decorator): whether it is decorated, whether it is a generator function, and the default-filter
stack operations it performs in each segment between two suspension points (see coq/theories/Misc/Filters.v).

Fail closed (py2coq.Unsupported, i.e. a broken obligation) when
  * `altered_default_filters` itself is no longer "push one entry; try: yield; finally: pop one entry",
  * the name `altered_default_filters` is used in any other way than `with altered_default_filters(...)`,
    `@altered_default_filters(...)`, an import, or `altered_default_filters.__name__`,
  * `default_filters` is touched other than by its definition, by `altered_default_filters`, or read as
    `default_filters[-1]`,
because then the summaries below would no longer describe every writer of the stack.

Why flattening the control flow is exact for the question "is every segment balanced": the only stack operations
are the entry and exit of well-nested `with` blocks.  If no such block (and no decorated generator) contains a
suspension point, every LPush is followed by its LPop inside the same segment on every path (return/raise/break
leave through the context manager's `finally`).  If one does, the segment running into that suspension point
carries an unmatched LPush on every path that reaches it, and the flattened summary shows exactly that.
"""
import ast
import glob
import os

from py2coq import Unsupported

REPO = os.environ.get("DELB_REPO", "/repo")
ADF = "altered_default_filters"
DF = "default_filters"

REFERENCE_ADF_BODY = '''
global default_filters

if extend:
    default_filters.append(default_filters[-1] + filter)
else:
    default_filters.append(filter)

try:
    yield
finally:
    default_filters.pop()
'''
REFERENCE_ADF_ARGS = "def f(*filter: Filter, extend: bool = False): pass"
REFERENCE_DF_DEF = ["default_filters: deque[tuple[Filter, ...]] = deque()",
                    "default_filters.append((_is_tag_or_text_node,))"]


def files():
    out = []
    for top in ("_delb", "delb"):
        out += glob.glob(os.path.join(REPO, top, "**", "*.py"), recursive=True)
    return sorted(out)


def is_adf_ref(e):
    return (isinstance(e, ast.Name) and e.id == ADF) or (isinstance(e, ast.Attribute) and e.attr == ADF)


def is_adf_call(e):
    return isinstance(e, ast.Call) and is_adf_ref(e.func)


def dump(n):
    return ast.dump(n, annotate_fields=True, include_attributes=False)


class Flattener:
    """segments of one function body"""

    def __init__(self):
        self.has_yield = False

    def stmts(self, nodes):
        segs = [[]]
        for n in nodes:
            self.node(n, segs)
        return segs

    def node(self, n, segs):
        if isinstance(n, (ast.FunctionDef, ast.AsyncFunctionDef, ast.Lambda, ast.ClassDef)):
            # separate code objects; decorators and defaults are evaluated here but cannot suspend this frame
            return
        if isinstance(n, (ast.AsyncWith, ast.AsyncFor, ast.Await)):
            raise Unsupported("async construct at line %d" % n.lineno)
        if isinstance(n, ast.With):
            pushed = 0
            for item in n.items:
                if is_adf_call(item.context_expr):
                    for a in list(item.context_expr.args) + [k.value for k in item.context_expr.keywords]:
                        self.node(a, segs)
                    segs[-1].append("LPush")
                    pushed += 1
                else:
                    self.node(item.context_expr, segs)
            for b in n.body:
                self.node(b, segs)
            for _ in range(pushed):
                segs[-1].append("LPop")
            return
        if isinstance(n, (ast.For, ast.While)):
            if isinstance(n, ast.For):
                self.node(n.iter, segs)
            body = Flattener()
            bsegs = body.stmts(([n.test] if isinstance(n, ast.While) else []) + list(n.body))
            if body.has_yield:
                self.has_yield = True
            segs[-1] += bsegs[0]
            if len(bsegs) > 1:
                segs += bsegs[1:-1]
                segs.append(bsegs[-1] + bsegs[0])        # last suspension of one round -> first of the next
                segs.append(list(bsegs[-1]))             # ... or out of the loop
            for b in n.orelse:
                self.node(b, segs)
            return
        if isinstance(n, (ast.Yield, ast.YieldFrom)):
            if n.value is not None:
                self.node(n.value, segs)
            self.has_yield = True
            segs.append([])
            if isinstance(n, ast.YieldFrom):
                segs.append([])                          # between two delegated suspensions
            return
        for ch in ast.iter_child_nodes(n):
            self.node(ch, segs)


def scan_file(path, rel):
    with open(path) as f:
        tree = ast.parse(f.read())
    out, readers, nfun = [], [], [0]
    allowed_adf = set()      # ids of Name/Attribute nodes referring to ADF in an accepted position
    allowed_df = set()

    # accepted positions ---------------------------------------------------------------------------
    for n in ast.walk(tree):
        if isinstance(n, ast.With):
            for item in n.items:
                if is_adf_call(item.context_expr):
                    allowed_adf.add(id(item.context_expr.func))
                    if item.context_expr.keywords:
                        raise Unsupported("%s:%d: library use of altered_default_filters with keyword arguments (extend=) "
                                          "would make the pushed entry depend on the caller's stack" % (rel, n.lineno))
        if isinstance(n, (ast.FunctionDef, ast.AsyncFunctionDef)):
            for d in n.decorator_list:
                if is_adf_call(d):
                    if isinstance(n, ast.AsyncFunctionDef):
                        raise Unsupported("%s: decorated async function %s" % (rel, n.name))
                    allowed_adf.add(id(d.func))
                    if d.args or d.keywords:
                        raise Unsupported("%s: @altered_default_filters(...) with arguments on %s (the model takes the "
                                          "decorator's entry to be `()`)" % (rel, n.name))
        if isinstance(n, ast.Attribute) and n.attr == "__name__" and is_adf_ref(n.value):
            allowed_adf.add(id(n.value))
        if (isinstance(n, ast.Subscript) and isinstance(n.value, ast.Name) and n.value.id == DF
                and isinstance(n.ctx, ast.Load) and dump(n.slice) == dump(ast.parse("-1", mode="eval").body)):
            allowed_df.add(id(n.value))

    # the definition of the context manager and of the stack ------------------------------------------
    if rel == "_delb/nodes.py":
        defs = [n for n in tree.body if isinstance(n, ast.FunctionDef) and n.name == ADF]
        if len(defs) != 1:
            raise Unsupported("altered_default_filters is not defined exactly once at module level of _delb/nodes.py")
        d = defs[0]
        if [dump(x) for x in d.decorator_list] != [dump(ast.parse("contextmanager", mode="eval").body)]:
            raise Unsupported("altered_default_filters is no longer a plain @contextmanager")
        body = list(d.body)
        if body and isinstance(body[0], ast.Expr) and isinstance(body[0].value, ast.Constant) and isinstance(body[0].value.value, str):
            body = body[1:]
        if [dump(x) for x in body] != [dump(x) for x in ast.parse(REFERENCE_ADF_BODY).body]:
            raise Unsupported("the body of altered_default_filters is no longer: push one entry; try: yield; finally: pop")
        if dump(d.args) != dump(ast.parse(REFERENCE_ADF_ARGS).body[0].args):
            raise Unsupported("the signature of altered_default_filters changed")
        for x in ast.walk(d):
            if (isinstance(x, ast.Name) and x.id == DF) or isinstance(x, ast.Global):
                allowed_df.add(id(x))
        want = [dump(ast.parse(s).body[0]) for s in REFERENCE_DF_DEF]
        have = [n for n in tree.body if dump(n) in want]
        if len(have) != 2:
            raise Unsupported("the module-level definition of default_filters changed")
        for h in have:
            for x in ast.walk(h):
                if isinstance(x, ast.Name) and x.id == DF:
                    allowed_df.add(id(x))

    for n in ast.walk(tree):
        if is_adf_ref(n) and id(n) not in allowed_adf:
            raise Unsupported("%s:%d: altered_default_filters used other than as `with`/decorator call" % (rel, n.lineno))
        if isinstance(n, ast.Name) and n.id == DF and id(n) not in allowed_df:
            raise Unsupported("%s:%d: default_filters touched outside altered_default_filters" % (rel, n.lineno))
        if isinstance(n, ast.Attribute) and n.attr == DF:
            raise Unsupported("%s:%d: default_filters reached through an attribute" % (rel, n.lineno))
        if isinstance(n, ast.Global) and DF in n.names and id(n) not in allowed_df:
            raise Unsupported("%s:%d: global default_filters outside altered_default_filters" % (rel, n.lineno))
        if isinstance(n, ast.alias) and n.name == DF:
            raise Unsupported("%s: default_filters imported" % rel)

    # per function summaries ------------------------------------------------------------------------
    def visit(node, qual):
        for ch in ast.iter_child_nodes(node):
            if isinstance(ch, ast.ClassDef):
                visit(ch, qual + [ch.name])
            elif isinstance(ch, (ast.FunctionDef, ast.AsyncFunctionDef)):
                nfun[0] += 1
                name = ".".join(qual + [ch.name])
                if not (rel == "_delb/nodes.py" and name == ADF):
                    summarise(ch, name)
                visit(ch, qual + [ch.name])
            else:
                visit(ch, qual)

    def summarise(fn, name):
        fl = Flattener()
        segs = fl.stmts(fn.body)
        ndec = sum(1 for d in fn.decorator_list if is_adf_call(d))
        uses = ndec > 0 or any(op for s in segs for op in s)
        if any(isinstance(x, ast.Subscript) and isinstance(x.value, ast.Name) and x.value.id == DF
               for x in own_nodes(fn)):
            readers.append(name)
        if not uses:
            return
        if ndec:
            if fl.has_yield:
                segs = [["LPush"] * ndec + ["LPop"] * ndec] + segs
            else:
                segs = [["LPush"] * ndec + segs[0] + ["LPop"] * ndec]
        out.append((rel, name, ndec > 0, fl.has_yield, segs))

    def own_nodes(fn):
        stack = list(ast.iter_child_nodes(fn))
        while stack:
            x = stack.pop()
            if isinstance(x, (ast.FunctionDef, ast.AsyncFunctionDef, ast.Lambda, ast.ClassDef)):
                continue
            yield x
            stack += list(ast.iter_child_nodes(x))

    visit(tree, [])
    return out, readers, nfun[0]


def cbool(b):
    return "true" if b else "false"


def gen_filter_fx():
    rows, readers, nfun = [], [], 0
    fs = files()
    if not any(f.endswith("_delb/nodes.py") for f in fs):
        raise Unsupported("_delb/nodes.py not found")
    for path in fs:
        rel = os.path.relpath(path, REPO)
        try:
            o, r, n = scan_file(path, rel)
        except SyntaxError as e:
            raise Unsupported("%s does not parse: %s" % (rel, e))
        rows += o
        readers += ["%s" % x for x in r]
        nfun += n
    if not rows:
        raise Unsupported("no use of altered_default_filters found")
    body = "From Coq Require Import List String.\nFrom Delb.Misc Require Import Filters.\nImport ListNotations.\n"
    body += "Open Scope string_scope.\n"
    body += "(* %d functions in %d files scanned; the ones below use altered_default_filters *)\n" % (nfun, len(fs))
    body += "Definition scanned_functions : nat := %d.\n" % nfun
    items = []
    for rel, name, dec, gen, segs in rows:
        s = "[" + "; ".join("[" + "; ".join(seg) + "]" for seg in segs) + "]"
        items.append('  mk_fsum "%s" "%s" %s %s %s' % (rel, name, cbool(dec), cbool(gen), s))
    body += "Definition routines : list fsum := [\n" + ";\n".join(items) + "\n].\n"
    body += "(* functions that read default_filters[-1] *)\nDefinition readers : list string := [%s].\n" % "; ".join(
        '"%s"' % r for r in readers)
    return body


GENERATORS = {
    "GenFilterFx.v": ("every use of altered_default_filters / default_filters in /repo/_delb and /repo/delb (AST)", gen_filter_fx),
}
