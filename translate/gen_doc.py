"""Generated definitions for C12 (Gen/GenDoc.v): the document-level writer calls of
`Document.__serialize`, `str()` of comments / processing instructions, the comment validator and the
serializer class facts the model of Xml/Doc.v relies on.

Fail closed: every function below accepts exactly the statement / expression forms listed in it and
raises `Unsupported` on anything else, which makes the generated file a stub that does not compile.
"""
import ast
import os

import py2coq
from py2coq import Unsupported

REPO = os.environ.get("DELB_REPO", "/repo")


def read(rel):
    with open(os.path.join(REPO, rel)) as f:
        return f.read()


def find_class(tree, name):
    for n in tree.body:
        if isinstance(n, ast.ClassDef) and n.name == name:
            return n
    raise Unsupported("class %s not found" % name)


def find_method(cls, name):
    for n in cls.body:
        if isinstance(n, ast.FunctionDef) and n.name == name:
            return n
    raise Unsupported("method %s.%s not found" % (cls.name, name))


def body_without_docstring(f):
    b = list(f.body)
    if b and isinstance(b[0], ast.Expr) and isinstance(b[0].value, ast.Constant) and isinstance(b[0].value.value, str):
        b = b[1:]
    return b


def app(parts):
    parts = [p for p in parts if p != "[]"]
    if not parts:
        return "[]"
    return "(" + " ++ ".join(parts) + ")" if len(parts) > 1 else parts[0]


def fstring(e, value_of):
    """JoinedStr / Constant str -> Gallina str expression; `value_of(expr)` translates the holes"""
    if isinstance(e, ast.Constant) and isinstance(e.value, str):
        return py2coq.lit(e.value) if e.value else "[]"
    if not isinstance(e, ast.JoinedStr):
        raise Unsupported("not an f-string: " + ast.dump(e)[:120])
    parts = []
    for v in e.values:
        if isinstance(v, ast.Constant) and isinstance(v.value, str):
            parts.append(py2coq.lit(v.value))
        elif isinstance(v, ast.FormattedValue) and v.conversion == -1 and v.format_spec is None:
            parts.append(value_of(v.value))
        else:
            raise Unsupported("f-string part: " + ast.dump(v)[:120])
    return app(parts)


def self_attr(names):
    def value_of(e):
        if isinstance(e, ast.Attribute) and isinstance(e.value, ast.Name) and e.value.id == "self" and e.attr in names:
            return e.attr
        raise Unsupported("f-string hole: " + ast.dump(e)[:120])
    return value_of


def str_method(tree, cls_name, attrs):
    """`def __str__(self) -> str: return f"..."` over self.<attrs>"""
    f = find_method(find_class(tree, cls_name), "__str__")
    b = body_without_docstring(f)
    if len(b) != 1 or not isinstance(b[0], ast.Return) or b[0].value is None:
        raise Unsupported("%s.__str__ is no longer a single return" % cls_name)
    return fstring(b[0].value, self_attr(attrs))


def comment_validator(tree):
    """`if "--" in value or value.endswith("-"): raise ValueError(...)` -> the condition"""
    f = find_method(find_class(tree, "CommentNode"), "_validate_content")
    args = [a.arg for a in f.args.args]
    if args != ["value"]:
        raise Unsupported("CommentNode._validate_content signature")
    b = body_without_docstring(f)
    if not (len(b) == 1 and isinstance(b[0], ast.If) and not b[0].orelse and len(b[0].body) == 1
            and isinstance(b[0].body[0], ast.Raise)):
        raise Unsupported("CommentNode._validate_content is no longer `if <cond>: raise`")

    def cond(e):
        if isinstance(e, ast.BoolOp) and isinstance(e.op, ast.Or):
            return "(" + " || ".join(cond(v) for v in e.values) + ")%bool"
        if isinstance(e, ast.BoolOp) and isinstance(e.op, ast.And):
            return "(" + " && ".join(cond(v) for v in e.values) + ")%bool"
        if (isinstance(e, ast.Compare) and len(e.ops) == 1 and isinstance(e.ops[0], ast.In)
                and isinstance(e.left, ast.Constant) and isinstance(e.left.value, str) and e.left.value
                and isinstance(e.comparators[0], ast.Name) and e.comparators[0].id == "value"):
            return "(py_contains value %s)" % py2coq.lit(e.left.value)
        if (isinstance(e, ast.Call) and isinstance(e.func, ast.Attribute) and isinstance(e.func.value, ast.Name)
                and e.func.value.id == "value" and e.func.attr in ("endswith", "startswith") and len(e.args) == 1
                and not e.keywords and isinstance(e.args[0], ast.Constant) and isinstance(e.args[0].value, str)):
            return "(py_%s value %s)" % (e.func.attr, py2coq.lit(e.args[0].value))
        raise Unsupported("validator condition: " + ast.dump(e)[:160])
    return cond(b[0].test)


class Serialize:
    """Document.__serialize -> the list of strings handed to `serializer.writer`, in order.
    `prologue` / `epilogue` are the str() of the nodes, `rootc` is everything serialize_root writes."""

    def __init__(self, f):
        self.f = f
        self.nl_defined = False

    def is_name(self, e, name):
        return isinstance(e, ast.Name) and e.id == name

    def is_self_attr(self, e, attr):
        return isinstance(e, ast.Attribute) and self.is_name(e.value, "self") and e.attr == attr

    def is_serializer_attr(self, e, attr):
        return isinstance(e, ast.Attribute) and self.is_name(e.value, "serializer") and e.attr == attr

    def sexpr(self, e, loopvar=None):
        """string expression"""
        if isinstance(e, (ast.JoinedStr, ast.Constant)):
            return fstring(e, self.hole)
        if isinstance(e, ast.BinOp) and isinstance(e.op, ast.Add):
            return app([self.sexpr(e.left, loopvar), self.sexpr(e.right, loopvar)])
        if self.is_name(e, "possible_newline"):
            if not self.nl_defined:
                raise Unsupported("possible_newline used before its definition")
            return "possible_newline"
        if isinstance(e, ast.Call) and self.is_name(e.func, "str") and len(e.args) == 1 and not e.keywords:
            a = e.args[0]
            if loopvar and self.is_name(a, loopvar):
                return loopvar
            # str(self.epilogue[-1])
            if (isinstance(a, ast.Subscript) and self.is_self_attr(a.value, "epilogue")
                    and isinstance(a.slice, ast.UnaryOp) and isinstance(a.slice.op, ast.USub)
                    and isinstance(a.slice.operand, ast.Constant) and a.slice.operand.value == 1):
                return "(last epilogue [])"
        raise Unsupported("string expression: " + ast.dump(e)[:160])

    def hole(self, e):
        if (isinstance(e, ast.Call) and isinstance(e.func, ast.Attribute) and self.is_name(e.func.value, "encoding")
                and e.func.attr == "upper" and not e.args and not e.keywords):
            return "encoding_upper"
        if self.is_name(e, "possible_newline") and self.nl_defined:
            return "possible_newline"
        raise Unsupported("f-string hole: " + ast.dump(e)[:120])

    def writer_call(self, s, loopvar=None):
        """serializer.writer(<string expression>)"""
        if (isinstance(s, ast.Expr) and isinstance(s.value, ast.Call) and self.is_serializer_attr(s.value.func, "writer")
                and len(s.value.args) == 1 and not s.value.keywords):
            return self.sexpr(s.value.args[0], loopvar)
        return None

    def block(self, stmts):
        out = []
        for s in stmts:
            out += self.stmt(s)
        return out

    def stmt(self, s):
        # possible_newline = "\n" if isinstance(serializer, PrettySerializer) else ""
        if (isinstance(s, ast.Assign) and len(s.targets) == 1 and self.is_name(s.targets[0], "possible_newline")):
            v = s.value
            if not (isinstance(v, ast.IfExp) and isinstance(v.test, ast.Call) and self.is_name(v.test.func, "isinstance")
                    and len(v.test.args) == 2 and self.is_name(v.test.args[0], "serializer")
                    and self.is_name(v.test.args[1], "PrettySerializer")
                    and isinstance(v.body, ast.Constant) and isinstance(v.orelse, ast.Constant)
                    and isinstance(v.body.value, str) and isinstance(v.orelse.value, str)) or self.nl_defined:
                raise Unsupported("definition of possible_newline")
            self.nl_defined = True
            self.nl = (py2coq.lit(v.body.value) if v.body.value else "[]",
                       py2coq.lit(v.orelse.value) if v.orelse.value else "[]")
            return []
        w = self.writer_call(s)
        if w is not None:
            return ["[%s]" % w]
        # with _wrapper_cache: / with altered_default_filters():
        if isinstance(s, ast.With):
            for it in s.items:
                c = it.context_expr
                ok = self.is_name(c, "_wrapper_cache") or (
                    isinstance(c, ast.Call) and self.is_name(c.func, "altered_default_filters") and not c.args
                    and not c.keywords)
                if not ok or it.optional_vars is not None:
                    raise Unsupported("with item: " + ast.dump(c)[:120])
            return self.block(s.body)
        # for node in self.prologue: / for node in self.epilogue[:-1]:
        if isinstance(s, ast.For) and not s.orelse and isinstance(s.target, ast.Name) and len(s.body) == 1:
            var = s.target.id
            if self.is_self_attr(s.iter, "prologue"):
                coll = "prologue"
            elif (isinstance(s.iter, ast.Subscript) and self.is_self_attr(s.iter.value, "epilogue")
                  and isinstance(s.iter.slice, ast.Slice) and s.iter.slice.lower is None and s.iter.slice.step is None
                  and isinstance(s.iter.slice.upper, ast.UnaryOp) and isinstance(s.iter.slice.upper.op, ast.USub)
                  and isinstance(s.iter.slice.upper.operand, ast.Constant) and s.iter.slice.upper.operand.value == 1):
                coll = "(removelast epilogue)"
            else:
                raise Unsupported("loop over: " + ast.dump(s.iter)[:120])
            w = self.writer_call(s.body[0], loopvar=var)
            if w is None:
                raise Unsupported("loop body: " + ast.dump(s.body[0])[:160])
            return ["(map (fun %s : str => %s) %s)" % (var, w, coll)]
        # serializer.serialize_root(self.root)
        if (isinstance(s, ast.Expr) and isinstance(s.value, ast.Call) and self.is_serializer_attr(s.value.func, "serialize_root")
                and len(s.value.args) == 1 and self.is_self_attr(s.value.args[0], "root") and not s.value.keywords):
            return ["[rootc]"]
        # if self.epilogue:
        if isinstance(s, ast.If) and not s.orelse and self.is_self_attr(s.test, "epilogue"):
            inner = self.block(s.body)
            return ["(if negb (null epilogue) then %s else [])" % (" ++ ".join(inner) if inner else "[]")]
        # serializer.writer.buffer.flush()
        if (isinstance(s, ast.Expr) and isinstance(s.value, ast.Call) and isinstance(s.value.func, ast.Attribute)
                and s.value.func.attr == "flush" and isinstance(s.value.func.value, ast.Attribute)
                and s.value.func.value.attr == "buffer" and self.is_serializer_attr(s.value.func.value.value, "writer")
                and not s.value.args and not s.value.keywords):
            return []
        raise Unsupported("statement of Document.__serialize: " + ast.dump(s)[:200])

    def run(self):
        args = [a.arg for a in self.f.args.args]
        if args != ["self", "serializer", "encoding"]:
            raise Unsupported("signature of Document.__serialize")
        chunks = self.block(body_without_docstring(self.f))
        if not self.nl_defined:
            raise Unsupported("possible_newline is not defined")
        return ("Definition gen_doc_chunks (pretty : bool) (encoding_upper : str) (prologue : list str) (rootc : str)\n"
                "           (epilogue : list str) : list str :=\n"
                "  let possible_newline : str := if pretty then %s else %s in\n  %s.\n"
                % (self.nl[0], self.nl[1], "\n  ++ ".join(chunks) if chunks else "[]"))


def class_facts(tree):
    """TextWrappingSerializer is a PrettySerializer, PrettySerializer a Serializer; _get_serializer returns
    Serializer for format_options None, TextWrappingSerializer for a width, PrettySerializer otherwise;
    TextWrappingSerializer replaces the writer by a _LengthTrackingWriter over the same buffer."""
    def bases(name):
        return [b.id for b in find_class(tree, name).bases if isinstance(b, ast.Name)]
    if bases("TextWrappingSerializer") != ["PrettySerializer"] or bases("PrettySerializer") != ["Serializer"]:
        raise Unsupported("serializer class hierarchy changed")
    g = None
    for n in tree.body:
        if isinstance(n, ast.FunctionDef) and n.name == "_get_serializer":
            g = n
    if g is None:
        raise Unsupported("_get_serializer not found")
    b = body_without_docstring(g)

    def returns_class(s, name):
        return (isinstance(s, ast.Return) and isinstance(s.value, ast.Call) and isinstance(s.value.func, ast.Name)
                and s.value.func.id == name)
    ok = (len(b) == 3
          and isinstance(b[0], ast.If) and isinstance(b[0].test, ast.Compare) and isinstance(b[0].test.ops[0], ast.Is)
          and isinstance(b[0].test.left, ast.Name) and b[0].test.left.id == "format_options"
          and isinstance(b[0].test.comparators[0], ast.Constant) and b[0].test.comparators[0].value is None
          and len(b[0].body) == 1 and returns_class(b[0].body[0], "Serializer") and not b[0].orelse
          and isinstance(b[1], ast.If) and isinstance(b[1].body[0], ast.Raise)
          and isinstance(b[2], ast.If) and isinstance(b[2].test, ast.Attribute) and b[2].test.attr == "width"
          and len(b[2].body) == 1 and returns_class(b[2].body[0], "TextWrappingSerializer")
          and len(b[2].orelse) == 1 and returns_class(b[2].orelse[0], "PrettySerializer"))
    if not ok:
        raise Unsupported("_get_serializer no longer has the shape None -> Serializer, width -> TextWrappingSerializer, "
                          "else PrettySerializer")
    init = find_method(find_class(tree, "TextWrappingSerializer"), "__init__")
    src = ast.unparse(init).replace(" ", "").replace("\n", "")
    if "writer=_LengthTrackingWriter(writer.buffer)" not in src:
        raise Unsupported("TextWrappingSerializer.__init__ no longer wraps the buffer in a _LengthTrackingWriter")
    return ("(* kinds: 0 = Serializer, 1 = PrettySerializer, 2 = TextWrappingSerializer *)\n"
            "Definition gen_kind (has_format_options width_nonzero : bool) : nat :=\n"
            "  if has_format_options then (if width_nonzero then 2 else 1) else 0.\n"
            "Definition gen_is_pretty (kind : nat) : bool := match kind with 0 => false | _ => true end.\n"
            "Definition gen_length_tracking (kind : nat) : bool := match kind with 2 => true | _ => false end.\n")


def setter_same_root(doc_cls):
    """the `root` setter: is there an `if current_root is node: return` before the call of _copy_root_siblings?"""
    f = None
    for n in doc_cls.body:
        if isinstance(n, ast.FunctionDef) and n.name == "root" and any(
                isinstance(d, ast.Attribute) and d.attr == "setter" for d in n.decorator_list):
            f = n
    if f is None:
        raise Unsupported("Document.root setter not found")
    if [a.arg for a in f.args.args] != ["self", "node"]:
        raise Unsupported("signature of the Document.root setter")
    early, copy = None, None
    for i, s in enumerate(body_without_docstring(f)):
        if (isinstance(s, ast.If) and isinstance(s.test, ast.Compare) and len(s.test.ops) == 1
                and isinstance(s.test.ops[0], ast.Is) and not s.orelse and len(s.body) == 1
                and isinstance(s.body[0], ast.Return) and s.body[0].value is None):
            names = {s.test.left.id if isinstance(s.test.left, ast.Name) else None,
                     s.test.comparators[0].id if isinstance(s.test.comparators[0], ast.Name) else None}
            if names == {"current_root", "node"} and early is None:
                early = i
        if "_copy_root_siblings(" in ast.unparse(s) and copy is None:
            copy = i
    if copy is None:
        raise Unsupported("the Document.root setter no longer calls _copy_root_siblings")
    return early is not None and early < copy


def gen_doc():
    nodes = ast.parse(read("_delb/nodes.py"))
    init = ast.parse(read("delb/__init__.py"))
    out = "From Delb.Base Require Import PyStr.\n"
    out += "(* CommentNode.__str__ *)\nDefinition gen_comment_str (content : str) : str := %s.\n" % \
        str_method(nodes, "CommentNode", ("content",))
    out += "(* ProcessingInstructionNode.__str__ *)\nDefinition gen_pi_str (target content : str) : str := %s.\n" % \
        str_method(nodes, "ProcessingInstructionNode", ("target", "content"))
    out += "(* CommentNode._validate_content raises ValueError exactly when *)\n" \
           "Definition gen_comment_invalid (value : str) : bool := %s.\n" % comment_validator(nodes)
    f = None
    for n in find_class(init, "Document").body:
        if isinstance(n, ast.FunctionDef) and n.name in ("__serialize", "_Document__serialize"):
            f = n
    if f is None:
        raise Unsupported("Document.__serialize not found")
    out += "(* Document.__serialize: the arguments of the writer calls, in order *)\n" + Serialize(f).run()
    out += class_facts(nodes)
    # Document.__str__ passes encoding="utf-8"; write passes its own `encoding` to both the writer and __serialize
    doc = find_class(init, "Document")
    s = ast.unparse(find_method(doc, "__str__")).replace(" ", "")
    if "self.__serialize(serializer=serializer,encoding='utf-8')" not in s:
        raise Unsupported("Document.__str__ no longer serializes with encoding='utf-8'")
    w = ast.unparse(find_method(doc, "write")).replace(" ", "").replace("\n", "")
    if "_TextBufferWriter(TextIOWrapper(buffer),encoding=encoding,newline=newline)" not in w \
            or not w.rstrip(")").endswith("encoding=encoding"):
        raise Unsupported("Document.write no longer hands the same `encoding` to the text layer and to __serialize")
    out += "Definition gen_str_encoding : str := %s.\n" % py2coq.lit("utf-8")
    out += "(* Document.root setter: `if current_root is node: return` precedes _copy_root_siblings *)\n" \
           "Definition gen_setter_returns_on_same_root : bool := %s.\n" % ("true" if setter_same_root(doc) else "false")
    return out


GENERATORS = {
    "GenDoc.v": ("delb/__init__.py Document.__serialize/__str__/write; _delb/nodes.py CommentNode.__str__/_validate_content, "
                 "ProcessingInstructionNode.__str__, _get_serializer, serializer classes", gen_doc),
}
