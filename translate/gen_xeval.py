"""Generated definitions for the XPath evaluator model (C06/C14/C15): Gen/GenXEval.v

  xpath_functions : FnLang.ftable   every function registered in plugin_manager.xpath_functions by
                                    _delb/xpath/functions.py: parameter count (without the context), variadic flag,
                                    and its *body* translated into the constructors of XPath/FnLang.v
  node_type_test_mapping            parser.NODE_TYPE_TEST_MAPPING as (name, class name) pairs
  axis_generators                   the generator methods of ast.Axis (method name, what it iterates), read from the AST

Fail closed: a function whose body is not one of the recognised shapes raises Unsupported."""
import ast
import os
import re

from py2coq import Unsupported

REPO = os.environ.get("DELB_REPO", "/repo")


def _cstr(s):
    return "[" + ";".join(str(ord(c)) for c in s) + "]%N" if s else "[]"


def _read(rel):
    with open(os.path.join(REPO, rel)) as f:
        return f.read()


def _registered_name(fn):
    """@plugin_manager.register_xpath_function  |  @plugin_manager.register_xpath_function("name")"""
    for d in fn.decorator_list:
        if isinstance(d, ast.Attribute) and d.attr == "register_xpath_function":
            return fn.name
        if isinstance(d, ast.Call) and isinstance(d.func, ast.Attribute) and d.func.attr == "register_xpath_function":
            if len(d.args) == 1 and isinstance(d.args[0], ast.Constant) and isinstance(d.args[0].value, str):
                return d.args[0].value
            raise Unsupported("register_xpath_function call with unexpected arguments in %s" % fn.name)
    return None


TEXT_BODY = ("For(target=Name(id='node', ctx=Store()), iter=Call(func=Attribute(value=Attribute(value=Name(id='context', "
             "ctx=Load()), attr='node', ctx=Load()), attr='iterate_children', ctx=Load()), args=[], keywords=[]), "
             "body=[If(test=Call(func=Name(id='_is_node_of_type', ctx=Load()), args=[Name(id='node', ctx=Load()), "
             "Constant(value='TextNode')], keywords=[]), body=[Break()], orelse=[])], orelse=[Return(value=Constant(value=''))])"
             "|If(test=Name(id='TYPE_CHECKING', ctx=Load()), body=[Assert(test=Call(func=Name(id='isinstance', ctx=Load()), "
             "args=[Name(id='node', ctx=Load()), Name(id='TextNode', ctx=Load())], keywords=[]))], orelse=[])"
             "|Return(value=Attribute(value=Name(id='node', ctx=Load()), attr='content', ctx=Load()))")


TO_STRING = ("If(test=Call(func=Name(id='isinstance', ctx=Load()), args=[Name(id='value', ctx=Load()), Name(id='str', ctx=Load())], keywords=[]), body=[Return(value=Name(id='value', ctx=Load()))], orelse=[])"
             "|If(test=Call(func=Name(id='isinstance', ctx=Load()), args=[Name(id='value', ctx=Load()), Name(id='bool', ctx=Load())], keywords=[]), body=[Return(value=IfExp(test=Name(id='value', ctx=Load()), body=Constant(value='true'), orelse=Constant(value='false')))], orelse=[])"
             "|If(test=Compare(left=Name(id='value', ctx=Load()), ops=[NotEq()], comparators=[Name(id='value', ctx=Load())]), body=[Return(value=Constant(value='NaN'))], orelse=[])"
             "|If(test=Compare(left=Name(id='value', ctx=Load()), ops=[In()], comparators=[Tuple(elts=[Call(func=Name(id='float', ctx=Load()), args=[Constant(value='inf')], keywords=[]), Call(func=Name(id='float', ctx=Load()), args=[Constant(value='-inf')], keywords=[])], ctx=Load())]), body=[Return(value=IfExp(test=Compare(left=Name(id='value', ctx=Load()), ops=[Gt()], comparators=[Constant(value=0)]), body=Constant(value='Infinity'), orelse=Constant(value='-Infinity')))], orelse=[])"
             "|If(test=Compare(left=Name(id='value', ctx=Load()), ops=[Eq()], comparators=[Call(func=Name(id='int', ctx=Load()), args=[Name(id='value', ctx=Load())], keywords=[])]), body=[Return(value=Call(func=Name(id='str', ctx=Load()), args=[Call(func=Name(id='int', ctx=Load()), args=[Name(id='value', ctx=Load())], keywords=[])], keywords=[]))], orelse=[])"
             "|Return(value=Call(func=Name(id='repr', ctx=Load()), args=[Call(func=Name(id='float', ctx=Load()), args=[Name(id='value', ctx=Load())], keywords=[])], keywords=[]))")


def _ts(e, idx):
    """_to_string(<param>) -> index of the parameter"""
    if (isinstance(e, ast.Call) and isinstance(e.func, ast.Name) and e.func.id == "_to_string" and len(e.args) == 1
            and isinstance(e.args[0], ast.Name) and e.args[0].id in idx and not e.keywords):
        return idx[e.args[0].id]
    return None


def _body(fn, ctxname, params, vararg):
    stmts = [s for s in fn.body if not (isinstance(s, ast.Expr) and isinstance(s.value, ast.Constant))]
    idx = {p: i for i, p in enumerate(params)}
    if len(stmts) == 1 and isinstance(stmts[0], ast.Return):
        e = stmts[0].value
        # "".join(varargs)
        if (isinstance(e, ast.Call) and isinstance(e.func, ast.Attribute) and e.func.attr == "join"
                and isinstance(e.func.value, ast.Constant) and e.func.value.value == "" and len(e.args) == 1
                and isinstance(e.args[0], ast.Name) and e.args[0].id == vararg and not params and not e.keywords):
            return "FJoinAll"
        # "".join(_to_string(x) for x in varargs)
        if (isinstance(e, ast.Call) and isinstance(e.func, ast.Attribute) and e.func.attr == "join"
                and isinstance(e.func.value, ast.Constant) and e.func.value.value == "" and len(e.args) == 1
                and isinstance(e.args[0], ast.GeneratorExp) and not params and not e.keywords
                and ast.dump(e.args[0]) == ast.dump(ast.parse("(_to_string(x) for x in %s)" % vararg, mode="eval").body)):
            return "FJoinAllS"
        # _to_string(a) in _to_string(b)
        if isinstance(e, ast.Compare) and len(e.ops) == 1 and isinstance(e.ops[0], ast.In):
            a, b = _ts(e.left, idx), _ts(e.comparators[0], idx)
            if a is not None and b is not None:
                return "(FInS %d %d)" % (a, b)
        # _to_string(a).startswith(_to_string(b))
        if (isinstance(e, ast.Call) and isinstance(e.func, ast.Attribute) and e.func.attr == "startswith"
                and len(e.args) == 1 and not e.keywords):
            a, b = _ts(e.func.value, idx), _ts(e.args[0], idx)
            if a is not None and b is not None:
                return "(FStartsWithS %d %d)" % (a, b)
        # a in b
        if (isinstance(e, ast.Compare) and len(e.ops) == 1 and isinstance(e.ops[0], ast.In)
                and isinstance(e.left, ast.Name) and isinstance(e.comparators[0], ast.Name)
                and e.left.id in idx and e.comparators[0].id in idx):
            return "(FIn %d %d)" % (idx[e.left.id], idx[e.comparators[0].id])
        # bool(x)
        if (isinstance(e, ast.Call) and isinstance(e.func, ast.Name) and e.func.id == "bool" and len(e.args) == 1
                and isinstance(e.args[0], ast.Name) and e.args[0].id in idx and not e.keywords):
            return "(FBool %d)" % idx[e.args[0].id]
        # not x
        if (isinstance(e, ast.UnaryOp) and isinstance(e.op, ast.Not) and isinstance(e.operand, ast.Name)
                and e.operand.id in idx):
            return "(FNot %d)" % idx[e.operand.id]
        # context.size / context.position
        if (isinstance(e, ast.Attribute) and isinstance(e.value, ast.Name) and e.value.id == ctxname
                and e.attr in ("size", "position")):
            return "FCtxSize" if e.attr == "size" else "FCtxPosition"
        # a.startswith(b)
        if (isinstance(e, ast.Call) and isinstance(e.func, ast.Attribute) and e.func.attr == "startswith"
                and isinstance(e.func.value, ast.Name) and e.func.value.id in idx and len(e.args) == 1
                and isinstance(e.args[0], ast.Name) and e.args[0].id in idx and not e.keywords):
            return "(FStartsWith %d %d)" % (idx[e.func.value.id], idx[e.args[0].id])
    if ctxname == "context" and not params and vararg is None and "|".join(ast.dump(s) for s in stmts) == TEXT_BODY:
        return "FFirstTextChild"
    raise Unsupported("body of XPath function %s is outside the recognised shapes" % fn.name)


def gen_xeval():
    out = ["From Delb.Base Require Import PyStr.", "From Delb.XPath Require Import FnLang.", ""]
    # ---- function registry
    tree = ast.parse(_read("_delb/xpath/functions.py"))
    rows = []
    for n in tree.body:
        if isinstance(n, ast.Import) or isinstance(n, ast.ImportFrom) or isinstance(n, ast.If):
            continue
        if isinstance(n, ast.Expr) and isinstance(n.value, ast.Constant):
            continue
        if not isinstance(n, ast.FunctionDef):
            raise Unsupported("unexpected top-level statement in xpath/functions.py: %s" % type(n).__name__)
        if n.name == "_to_string":
            # the helper the string functions apply to their arguments: pinned to the shape XPath/Eval.v py_to_string models
            stmts = [x for x in n.body if not (isinstance(x, ast.Expr) and isinstance(x.value, ast.Constant))]
            if [a.arg for a in n.args.args] != ["value"] or "|".join(ast.dump(x) for x in stmts) != TO_STRING:
                raise Unsupported("functions._to_string is no longer the function XPath/Eval.v py_to_string models")
            continue
        name = _registered_name(n)
        if name is None:
            raise Unsupported("function %s is not registered the expected way" % n.name)
        a = n.args
        if a.kwonlyargs or a.kwarg or a.defaults or a.posonlyargs or not a.args:
            raise Unsupported("signature of %s" % n.name)
        ctxname = a.args[0].arg
        params = [x.arg for x in a.args[1:]]
        vararg = a.vararg.arg if a.vararg else None
        rows.append("  (%s, {| f_nparams := %d; f_variadic := %s; f_body := %s |})"
                    % (_cstr(name), len(params), "true" if vararg else "false", _body(n, ctxname, params, vararg)))
    out.append("Definition xpath_functions : ftable := [\n" + ";\n".join(rows) + "].\n")
    # ---- node type map
    ptree = ast.parse(_read("_delb/xpath/parser.py"))
    mapping = None
    for n in ptree.body:
        tgt = None
        if isinstance(n, ast.AnnAssign):
            tgt, val = n.target, n.value
        elif isinstance(n, ast.Assign) and len(n.targets) == 1:
            tgt, val = n.targets[0], n.value
        if isinstance(tgt, ast.Name) and tgt.id == "NODE_TYPE_TEST_MAPPING":
            if not isinstance(val, ast.Dict):
                raise Unsupported("NODE_TYPE_TEST_MAPPING is not a dict literal")
            mapping = []
            for k, v in zip(val.keys, val.values):
                if not (isinstance(k, ast.Constant) and isinstance(v, ast.Constant)):
                    raise Unsupported("NODE_TYPE_TEST_MAPPING entry")
                mapping.append((k.value, v.value))
    if mapping is None:
        raise Unsupported("NODE_TYPE_TEST_MAPPING not found")
    out.append("Definition node_type_test_mapping : list (str * str) := [\n" +
               ";\n".join("  (%s, %s)" % (_cstr(k), _cstr(v)) for k, v in mapping) + "].\n")
    # ---- axis generators: method name -> the navigation calls it is made of, in order
    atree = ast.parse(_read("_delb/xpath/ast.py"))
    axis = [n for n in atree.body if isinstance(n, ast.ClassDef) and n.name == "Axis"]
    if len(axis) != 1:
        raise Unsupported("class Axis")
    gens = []
    for m in axis[0].body:
        if not isinstance(m, ast.FunctionDef) or m.name.startswith("__") or m.name == "evaluate":
            continue
        parts = []
        for s in ast.walk(m):
            if isinstance(s, (ast.Yield, ast.YieldFrom)):
                v = s.value
                if isinstance(v, ast.Name):
                    parts.append(v.id)
                elif isinstance(v, ast.Call) and isinstance(v.func, ast.Attribute) and not v.args:
                    parts.append(v.func.attr)
                elif isinstance(v, ast.Call) and isinstance(v.func, ast.Name) and v.func.id == "_DocumentNode":
                    parts.append("_DocumentNode")
                else:
                    raise Unsupported("yield in Axis.%s" % m.name)
        gens.append((m.name, sorted(parts)))
    out.append("Definition axis_generators : list (str * list str) := [\n" +
               ";\n".join("  (%s, [%s])" % (_cstr(k), "; ".join(_cstr(p) for p in v)) for k, v in gens) + "].\n")
    # ---- string -> number: the pattern of ast._to_number must be the XPath 1.0 Number lexical form (XML whitespace,
    # ASCII digits), which XPath/Num.v xpath_number implements
    src = _read("_delb/xpath/ast.py")
    m = re.search(r'_match_number\s*=\s*re\.compile\(\s*r"([^"]*)"\s*\)\.fullmatch', src)
    if not m or m.group(1) != r"[ \t\r\n]*-?([0-9]+(\.[0-9]*)?|\.[0-9]+)[ \t\r\n]*":
        raise Unsupported("ast._match_number is no longer the XPath 1.0 number pattern with ASCII classes and no flags")
    out.append("Definition number_pattern_is_xpath10 : bool := true.\n")
    return "\n".join(out)


GENERATORS = {"GenXEval.v": ("_delb/xpath/functions.py, parser.py NODE_TYPE_TEST_MAPPING, ast.py Axis", gen_xeval)}
