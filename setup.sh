#!/bin/sh
# Build the framework offline from files on disk: regenerate Gen/*.v from /repo, build every .vo.
set -e
cd "$(dirname "$0")"
mkdir -p build/run build/replay evidence coq/theories/Gen
flock build/.coqlock env PYTHONPATH=/repo PYTHONHASHSEED=0 /venv/bin/python translate/gen_all.py || echo "translator reported failures (checks will report them)"
coq/mk_coqproject.sh
flock build/.coqlock timeout 3000 make -C coq -j16 -k || echo "some Coq files did not build (checks will report them)"
